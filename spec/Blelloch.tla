------------------------------ MODULE Blelloch ------------------------------
(***************************************************************************)
(* L1: the combine plan of the work-efficient parallel scan (cumsum /        *)
(* cumprod with method="blelloch", C19 / C01).                              *)
(*                                                                         *)
(* `CumReductionBlelloch._layer` keeps one running prefix value per block    *)
(* position except the last (n = numblocks - 1 values; value i starts as the *)
(* reduction of block i) and rewrites them in passes:                       *)
(*   upsweep    stride2 = 2, 4, 8, ... <= n :  for i = stride2-1, +stride2.. *)
(*                 v[i] := v[i - stride] (+) v[i]                            *)
(*   downsweep  stride2 = max(2, 2^ceil(log2(n div 2))), stride = stride2/2, *)
(*              halving while stride > 0 :  for i = stride2+stride-1, ...    *)
(*                 v[i] := v[i - stride] (+) v[i]                            *)
(* after which block i + 1 is combined with v[i].  The scan is correct iff   *)
(* at the end v[i] is the combination of blocks 0..i, each exactly once.     *)
(*                                                                         *)
(* Values are modelled as bags of block indices (function index -> count),  *)
(* so a block that is missing or folded in twice is visible.  One pass is    *)
(* one step (within a pass no updated position is read by another update).  *)
(* TLC checks, for every n up to BNMax:                                      *)
(*   PrefixesExact   at the end v[i] = {0..i}, every block once             *)
(*   NeverTwice      no block is ever folded into a value twice             *)
(* BMutant = "floor-stride" starts the downsweep at 2^floor(log2(n div 2))   *)
(* (an "integer arithmetic" rewrite of the stride): TLC must refute          *)
(* PrefixesExact - the first counterexample is n = 6, i.e. 7 blocks, the     *)
(* smallest array on which that slip shows.                                 *)
(*                                                                         *)
(* Conformance (BlellochVerdict): the combine tasks of the real graph, read  *)
(* off as triples <<level, i, j>> ("at this level v[i] := v[j] (+) v[i]"),   *)
(* must be exactly the plan the machine produces for that n.                *)
(***************************************************************************)
EXTENDS Naturals, Sequences, FiniteSets, TLC

CONSTANTS BNMax,          \* largest number of prefix values (numblocks - 1) explored
          BMutant         \* "none" | "floor-stride"

RECURSIVE BPow2(_), BFloorLog2(_)
BPow2(k) == IF k = 0 THEN 1 ELSE 2 * BPow2(k - 1)
BFloorLog2(m) == IF m <= 1 THEN 0 ELSE 1 + BFloorLog2(m \div 2)
BCeilLog2(m) == IF BPow2(BFloorLog2(m)) = m THEN BFloorLog2(m) ELSE BFloorLog2(m) + 1
BMax(a, b) == IF a >= b THEN a ELSE b
BStartStride2(n) == BMax(2, BPow2(IF BMutant = "floor-stride" THEN BFloorLog2(n \div 2) ELSE BCeilLog2(n \div 2)))

\* positions rewritten by a pass: range(first, n, stride2)
BPassIdx(n, first, stride2) == {i \in 0..(n - 1) : i >= first /\ (i - first) % stride2 = 0}
BSingle(n, i) == [j \in 0..(n - 1) |-> IF j = i THEN 1 ELSE 0]
BBagAdd(a, b) == [j \in DOMAIN a |-> a[j] + b[j]]

\* the state of the planner as a record, so that the machine and the verdict share one Step
BStart(n) == [n |-> n, phase |-> IF n >= 2 THEN "up" ELSE "done", stride |-> 1, stride2 |-> 2, level |-> 0,
              v |-> [i \in 0..(n - 1) |-> BSingle(n, i)], plan |-> {}]
BPass(st, first) ==
  LET idx == BPassIdx(st.n, first, st.stride2) IN
  [st EXCEPT !.v = [i \in 0..(st.n - 1) |-> IF i \in idx THEN BBagAdd(st.v[i - st.stride], st.v[i]) ELSE st.v[i]],
             !.plan = st.plan \cup {<<st.level, i, i - st.stride>> : i \in idx},
             !.level = st.level + 1]
BStep(st) ==
  CASE st.phase = "up" /\ st.stride2 <= st.n ->
         [BPass(st, st.stride2 - 1) EXCEPT !.stride = st.stride2, !.stride2 = 2 * st.stride2]
    [] st.phase = "up" /\ st.stride2 > st.n ->
         [st EXCEPT !.phase = "down", !.stride2 = BStartStride2(st.n), !.stride = BStartStride2(st.n) \div 2]
    [] st.phase = "down" /\ st.stride > 0 ->
         [BPass(st, st.stride2 + st.stride - 1) EXCEPT !.stride2 = st.stride, !.stride = st.stride \div 2]
    [] st.phase = "down" /\ st.stride = 0 -> [st EXCEPT !.phase = "done"]
    [] OTHER -> st

VARIABLE bst
BInit == \E n \in 0..BNMax : bst = BStart(n)
BNext == bst.phase # "done" /\ bst' = BStep(bst)
BSpec == BInit /\ [][BNext]_bst

PrefixesExact == bst.phase = "done" => \A i \in 0..(bst.n - 1) : bst.v[i] = [j \in 0..(bst.n - 1) |-> IF j <= i THEN 1 ELSE 0]
NeverTwice == \A i \in 0..(bst.n - 1) : \A j \in 0..(bst.n - 1) : bst.v[i][j] <= 1
\* a value only ever holds blocks at or before its own position
OnlyEarlier == \A i \in 0..(bst.n - 1) : \A j \in 0..(bst.n - 1) : bst.v[i][j] > 0 => j <= i

\* ---- conformance: c.n = number of prefix values, c.plan = sequence of <<level, i, j>> read off the real graph
RECURSIVE BFinal(_)
BFinal(st) == IF st.phase = "done" THEN st ELSE BFinal(BStep(st))
BlellochVerdict(c) ==
  LET want == BFinal(BStart(c.n)).plan
      got == {<<c.plan[q][1], c.plan[q][2], c.plan[q][3]>> : q \in 1..Len(c.plan)}
  IN IF got = want THEN "ok"
     ELSE IF want \ got # {} THEN "combine-step-of-the-plan-missing-in-the-graph"
     ELSE "graph-has-a-combine-step-the-plan-does-not-have"
=============================================================================
