---------------------------- MODULE MC_SourceIO ----------------------------
(* Model-checking wrapper for the phase machine of SourceIO.tla: a 1-D source of length 3 and every candidate request with
   bounds in -1..4 (in and out of bounds, empty and non-empty, basic and not). *)
EXTENDS SourceIO, TLC
MCShape == <<3>>
MCReqs == {<<[k |-> "slice", start |-> a, stop |-> b, step |-> None]>> : a \in {None} \cup (-1..4), b \in {None} \cup (-1..4)}
          \cup {<<[k |-> "int", i |-> i]>> : i \in -4..3} \cup {<<[k |-> "other"]>>}
=============================================================================
