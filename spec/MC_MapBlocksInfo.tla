------------------------- MODULE MC_MapBlocksInfo -------------------------
(* Model-checking wrapper: one concrete 2-D layout and every candidate invocation record over small ranges. *)
EXTENDS MapBlocksInfo, TLC
MCLayouts == {<< <<2, 1>>, <<3>> >>, << <<1, 1, 2>>, <<2, 2>> >>}
Locs == {<<i, j>> : i \in 0..2, j \in 0..1}
Shapes == {<<a, b>> : a \in 1..3, b \in 1..3}
ALocs == {<< <<lo1, lo1 + s[1]>>, <<lo2, lo2 + s[2]>> >> : lo1 \in 0..3, lo2 \in 0..2, s \in Shapes}
RecsFor(s) == {[shape |-> s, info |-> [chunk_location |-> l, array_location |-> al, chunk_shape |-> s, num_chunks |-> nc, shape |-> sh]] :
                l \in Locs, al \in {x \in ALocs : x[1][2] - x[1][1] = s[1] /\ x[2][2] - x[2][1] = s[2]},
                nc \in {<<2, 1>>, <<3, 2>>}, sh \in {<<3, 3>>, <<4, 4>>}}
MCRecs == UNION {RecsFor(s) : s \in {<<2, 3>>, <<1, 3>>, <<1, 2>>, <<2, 2>>}}
\* the records the machine accepts are exactly the blocks of the snapshot
Exact == \A rec \in MCRecs :
           (InvokeOK(mbsnap, rec) = "ok") <=>
             LET l == rec.info.chunk_location IN
               /\ \A a \in 1..2 : l[a] < Len(mbsnap[a])
               /\ \A a \in 1..2 : rec.shape[a] = mbsnap[a][l[a] + 1]
               /\ \A a \in 1..2 : rec.info.array_location[a][1] = Offset(mbsnap[a], l[a] + 1)
               /\ rec.info.num_chunks = <<Len(mbsnap[1]), Len(mbsnap[2])>>
               /\ rec.info.shape = <<SumSeq(mbsnap[1]), SumSeq(mbsnap[2])>>
=============================================================================
