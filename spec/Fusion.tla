------------------------------- MODULE Fusion -------------------------------
(***************************************************************************)
(* L1: block-index mappings in blockwise fusion (C02 third clause: "fusion  *)
(* never changes which input block any output block is computed from";     *)
(* C04: the fused graph is closed).                                        *)
(*                                                                         *)
(* A fusable group is a tree of blockwise nodes above one SHARED node `a`: *)
(*   t ::= "a" | T(perm, t) | N(t) | E(t, t)                               *)
(* (transpose, unary blockwise, binary elementwise of equal rank).  A fused *)
(* task computes ONE block of every member per output block, so `a` may be *)
(* a member only if every path from the root asks for the SAME block of it. *)
(* The implementation decides that with a symbolic mapping it carries down  *)
(* the tree (`_symbolic_mapping`): for every node a tuple saying which root *)
(* block coordinate gives each of the node's block coordinates; `a` is      *)
(* evicted from the group (stays a task layer of its own) when two paths    *)
(* reach it with different tuples (`_remove_conflicting_exprs`).            *)
(*                                                                         *)
(* The state machine walks the tree with an explicit stack exactly like the  *)
(* implementation (one node per step, mapping pushed through the node) and  *)
(* then decides.  Invariants, checked for EVERY root over all permutations: *)
(*   FusionClosed      a fused `a` is asked for one block per output block  *)
(*                     (otherwise the fused graph references a key nobody   *)
(*                     defines)                                            *)
(*   ProvenanceKept    the blocks of `a` a fused task reads are exactly the *)
(*                     blocks the un-fused graph reads for that output block*)
(*   EvictionComplete  (no lost fusion is NOT required; only soundness)     *)
(* FMutant = "forward-perm" pushes the mapping through a transpose with the *)
(* permutation instead of its inverse (indistinguishable for involutions,   *)
(* i.e. for every 2-D transpose): TLC must refute FusionClosed.             *)
(***************************************************************************)
EXTENDS Naturals, Sequences, FiniteSets, TLC

CONSTANTS FRank,          \* rank of every node (3: the smallest rank with non-involutive permutations)
          FDepth,         \* maximal number of transposes per path
          FMutant         \* "none" | "forward-perm"

FAxes == 1..FRank
FPerms == {p \in [FAxes -> FAxes] : {p[a] : a \in FAxes} = FAxes}
FInv(p) == [j \in FAxes |-> CHOOSE i \in FAxes : p[i] = j]
FIdent == [a \in FAxes |-> a]
FBlocks == [FAxes -> 0..1]                      \* two blocks per axis

\* ---- terms: paths are sequences of steps, a root is E over two paths down to the shared node
\* step: [k |-> "T", p |-> perm] | [k |-> "N"]
FSteps == {[k |-> "N", p |-> FIdent]} \cup {[k |-> "T", p |-> p] : p \in FPerms}
FTCount(path) == Cardinality({j \in 1..Len(path) : path[j].k = "T"})
FPaths == {<<>>} \cup {<<s>> : s \in FSteps} \cup {<<s, t>> : s \in FSteps, t \in FSteps}
           \cup {<<s, [k |-> "N", p |-> FIdent], t>> : s \in {x \in FSteps : x.k = "T"}, t \in {x \in FSteps : x.k = "T"}}
FGoodPaths == {q \in FPaths : FTCount(q) <= FDepth}

\* ---- semantics (what the un-fused graph does): NumPy transpose out.shape[i] = in.shape[p[i]], so the block of the child
\* that output block b reads is c with c[p[i]] = b[i]
FChildBlock(step, b) == IF step.k = "T" THEN [j \in FAxes |-> b[FInv(step.p)[j]]] ELSE b
RECURSIVE FBlockAlong(_, _)
FBlockAlong(path, b) == IF path = <<>> THEN b ELSE FBlockAlong(Tail(path), FChildBlock(Head(path), b))

\* ---- the implementation's symbolic mapping: m[j] = the root coordinate that gives coordinate j of this node
FThrough(step, m) ==
  IF step.k = "T"
  THEN [j \in FAxes |-> m[IF FMutant = "forward-perm" THEN step.p[j] ELSE FInv(step.p)[j]]]
  ELSE m
FApplyMap(m, b) == [j \in FAxes |-> b[m[j]]]

VARIABLES fleft, fright,     \* the two paths of the root E(fleft..a, fright..a)
          fstack,           \* pending <<remaining path, mapping>> pairs (the walk)
          ffound,           \* mappings with which `a` was reached
          fphase            \* "walk" | "decided"
fvars == <<fleft, fright, fstack, ffound, fphase>>

FInit ==
  /\ fleft \in FGoodPaths /\ fright \in FGoodPaths
  /\ fstack = <<<<fleft, FIdent>>, <<fright, FIdent>>>>
  /\ ffound = {}
  /\ fphase = "walk"

FWalkStep ==
  /\ fphase = "walk" /\ fstack # <<>>
  /\ LET top == Head(fstack) IN
       IF top[1] = <<>>
       THEN /\ ffound' = ffound \cup {top[2]}
            /\ fstack' = Tail(fstack)
       ELSE /\ fstack' = <<<<Tail(top[1]), FThrough(Head(top[1]), top[2])>>>> \o Tail(fstack)
            /\ UNCHANGED ffound
  /\ UNCHANGED <<fleft, fright, fphase>>

FDecide ==
  /\ fphase = "walk" /\ fstack = <<>>
  /\ fphase' = "decided"
  /\ UNCHANGED <<fleft, fright, fstack, ffound>>

FNext == FWalkStep \/ FDecide \/ (fphase = "decided" /\ UNCHANGED fvars)
FSpec == FInit /\ [][FNext]_fvars

\* `a` is a member of the fused group iff it was reached with one mapping only
FIsFused == fphase = "decided" /\ Cardinality(ffound) = 1
FTheMap == CHOOSE m \in ffound : TRUE

\* the blocks of `a` the un-fused graph reads for output block b
FReads(b) == {FBlockAlong(fleft, b), FBlockAlong(fright, b)}

FusionClosed == FIsFused => \A b \in FBlocks : Cardinality(FReads(b)) = 1
ProvenanceKept == FIsFused => \A b \in FBlocks : FReads(b) = {FApplyMap(FTheMap, b)}
\* ---- conformance: an observation recorded from a real "diamond" program (ArrayProgram.DiamondAct):
\* c.left / c.right: the transposes along the two paths from the root down to the shared node (permutations as in
\* ArrayProgram: 1-based, output axis i takes input axis p[i]), c.blocks: for every output block index the set of blocks of the shared node's SOURCE that the
\* optimized (fused) graph reaches.  They must be exactly the blocks the semantics above reads.
FPathOf(seq) == [j \in 1..Len(seq) |-> [k |-> "T", p |-> seq[j]]]
DiamondVerdict(c) ==
  LET lp == FPathOf(c.left) rp == FPathOf(c.right)
      want(b) == {FBlockAlong(lp, b), FBlockAlong(rp, b)}
      blk(j) == [a \in FAxes |-> c.blocks[j].idx[a]]
      got(j) == {[a \in FAxes |-> c.blocks[j].reads[q][a]] : q \in 1..Len(c.blocks[j].reads)}
  IN IF c.raised # "" THEN "ok-optimized-graph-not-built"
     ELSE IF \E j \in 1..Len(c.blocks) : got(j) # want(blk(j)) THEN "fused-graph-reads-other-blocks-of-the-shared-node"
     ELSE "ok"

\* the walk itself: every mapping is a permutation of the root's coordinates
MappingsArePerms == \A m \in ffound : m \in FPerms
=============================================================================
