----------------------------- MODULE Trace_Obs -----------------------------
(***************************************************************************)
(* L2 binding for observations recorded from real dask_array collections:  *)
(* exported task graphs, recorded executions, produced blocks, per-phase   *)
(* values, fired rewrites.  One state per observation; TLC evaluates the   *)
(* verdict operator of the L1 module the observation belongs to.           *)
(***************************************************************************)
EXTENDS TaskGraph, Collection, Optimizer, MapBlocksInfo, SourceIO, Naming, RandomRealization, XarrayOptIn, Fusion, Blelloch, Json, IOUtils, TLCExt
Cases == ndJsonDeserialize(IOEnv.CASES)
VARIABLE i
Init == i = 0 /\ g = Chain3 /\ st = S0 /\ om = M0("n") /\ mbsnap = <<>> /\ mbseen = {} /\ iophase = "constructing" /\ ioreads = {} /\ content = <<>> /\ cache = <<>> /\ ncfg = "x" /\ rng = 0 /\ seeds = <<>> /\ seen = <<>> /\ xloaded = {} /\ xmanager = "none" /\ xregistered = FALSE /\ fleft = <<>> /\ fright = <<>> /\ fstack = <<>> /\ ffound = {} /\ fphase = "walk" /\ bst = BStart(0)
Next == i < Len(Cases) /\ i' = i + 1 /\ UNCHANGED <<g, st, om, mbsnap, mbseen, iophase, ioreads, content, cache, ncfg, rng, seeds, seen, xloaded, xmanager, xregistered, fleft, fright, fstack, ffound, fphase, bst>>

Verdict(c) ==
  CASE c.fn = "graph"   -> GraphVerdict(c)
    [] c.fn = "run"     -> RunVerdict(c)
    [] c.fn = "records" -> RecordsVerdict(c)
    [] c.fn = "blocks"  -> BlocksVerdict(c)
    [] c.fn = "phases"  -> PhasesVerdict(c)
    [] c.fn = "rewrite" -> RewriteVerdict(c)
    [] c.fn = "fusion"  -> FusionVerdict(c)
    [] c.fn = "optimize" -> OptimizeVerdict(c)
    [] c.fn = "rechunk_spec" -> RechunkSpecVerdict(c)
    [] c.fn = "joint" -> JointVerdict(c)
    [] c.fn = "diamond" -> DiamondVerdict(c)
    [] c.fn = "blelloch" -> BlellochVerdict(c)
    [] c.fn = "block_info2" -> (IF BlockInfo2Verdict(c) # "ok" THEN BlockInfo2Verdict(c)
                                ELSE IF c.got.kind = "raised" THEN "ok-computation-raised"
                                ELSE IF ~SameValue(c.got, c.expect) THEN "map-blocks-value-differs" ELSE "ok")
    [] c.fn = "unknown" -> UnknownVerdict(c)
    [] c.fn = "entry" -> EntryVerdict(c)
    [] c.fn = "io" -> IOVerdict(c)
    [] c.fn = "naming" -> MintVerdict(c)
    [] c.fn = "history" -> HistoryVerdict(c)
    [] c.fn = "identity" -> IdentityVerdict(c)
    [] c.fn = "realization" -> RealizationVerdict(c)
    [] c.fn = "optin" -> OptInVerdict(c)
    [] c.fn = "store" -> StoreVerdict(c)
    [] c.fn = "block_info" -> (IF BlockInfoVerdict(c) # "ok" THEN BlockInfoVerdict(c)
                               ELSE IF c.got.kind = "raised" THEN "ok-computation-raised"
                               ELSE IF ~SameValue(c.got, c.expect) THEN "map-blocks-value-differs" ELSE "ok")
    [] OTHER -> "unknown-fn"

\* verdicts "ok-<reason>" (nothing claimed for this observation) are reported too; the harness counts them
IsOk(v) == v = "ok"
Checked == i = 0 \/ LET v == Verdict(Cases[i]) IN (IsOk(v) \/ PrintT(<<"REJECT", Cases[i].id, v>>))
AllConsumed == PrintT(<<"CONSUMED", TLCGet("stats").diameter - 1, Len(Cases)>>)
=============================================================================
