----------------------------- MODULE TaskGraph -----------------------------
(***************************************************************************)
(* L1: execution of a finite task graph, the thing every dask_array        *)
(* collection finally turns into (`__dask_graph__`, persisted graphs, the  *)
(* Frisky record list).                                                    *)
(*                                                                         *)
(* A graph G is a record                                                   *)
(*   n      : number of key ids; ids 1..n name every key that is defined   *)
(*            OR referenced (the exporter numbers keys, it does not judge) *)
(*   defd   : sequence of ids that have a task                             *)
(*   deps   : sequence (indexed by id) of sequences of ids (dependencies;  *)
(*            <<>> for ids without a task)                                 *)
(*   outs   : sequence of ids of the requested output keys                 *)
(*                                                                         *)
(* State of an execution: s = [done |-> set of ids, store |-> function     *)
(* id -> value fingerprint].  One action, Exec(k): enabled iff k has a     *)
(* task, has not run and all its dependencies have; it adds store[k] and   *)
(* must leave every other stored value untouched (purity).                 *)
(*                                                                         *)
(* The module is used three ways:                                          *)
(*  (1) MC: TLC explores every schedule of small constant graphs           *)
(*      (MCGraphs) and checks ScheduleIndependent / NoDeadlockBeforeDone;  *)
(*  (2) verdict operators over exported graphs of the implementation       *)
(*      (GraphVerdict: closed, acyclic, outputs defined, keys = grid);     *)
(*  (3) RunVerdict: a recorded execution (sequence of Exec events with     *)
(*      fingerprints of all live values before/after each task) must be a  *)
(*      behaviour of this machine.                                         *)
(***************************************************************************)
EXTENDS Integers, Sequences, FiniteSets, SequencesExt, FiniteSetsExt, Functions, Folds, TLC

SeqSet(s) == {s[j] : j \in 1..Len(s)}

Defd(G) == SeqSet(G.defd)
DepsOf(G, k) == SeqSet(G.deps[k])

(***************************************************************************)
(* The state machine                                                       *)
(***************************************************************************)
S0 == [done |-> {}, store |-> <<>>]          \* store: function over done (empty function)
ExecEnabled(G, s, k) == k \in Defd(G) /\ k \notin s.done /\ DepsOf(G, k) \subseteq s.done
\* pure execution: only key k changes
ExecApply(s, k, v) == [done |-> s.done \cup {k}, store |-> [j \in s.done \cup {k} |-> IF j = k THEN v ELSE s.store[j]]]

(***************************************************************************)
(* Static well-formedness of a graph (C04, C21)                            *)
(***************************************************************************)
Closed(G) == \A k \in Defd(G) : DepsOf(G, k) \subseteq Defd(G)
MissingDeps(G) == UNION {DepsOf(G, k) \ Defd(G) : k \in Defd(G)}

\* the set of tasks that can ever run: least fixpoint of "all deps runnable"
RECURSIVE Runnable(_, _)
Runnable(G, acc) ==
  LET more == {k \in Defd(G) \ acc : DepsOf(G, k) \subseteq acc}
  IN IF more = {} THEN acc ELSE Runnable(G, acc \cup more)
\* for a closed graph: acyclic iff every task can run
Acyclic(G) == Runnable(G, {}) = Defd(G)
OutputsDefined(G) == SeqSet(G.outs) \subseteq Defd(G)

(***************************************************************************)
(* Advertised key grid (C04): keys is the flattened `__dask_keys__()`,     *)
(* each element [name, idx]; they must be (collname, *block index) for     *)
(* every block index of numblocks, in C order.                             *)
(***************************************************************************)
ProdS(s) == FoldSeq(LAMBDA x, acc : x * acc, 1, s)
StridesS(shape) == [a \in 1..Len(shape) |-> ProdS(SubSeq(shape, a + 1, Len(shape)))]
UnravelC(k, shape) == LET st == StridesS(shape) IN [a \in 1..Len(shape) |-> (k \div st[a]) % shape[a]]
KeysAreGrid(keys, collname, numblocks) ==
  /\ Len(keys) = ProdS(numblocks)
  /\ \A j \in 1..Len(keys) : keys[j].name = collname /\ keys[j].idx = UnravelC(j - 1, numblocks)

GraphVerdict(c) ==
  LET G == c.g IN
  IF ~Closed(G) THEN "graph-not-closed"
  ELSE IF ~Acyclic(G) THEN "graph-has-cycle"
  ELSE IF ~OutputsDefined(G) THEN "output-key-not-defined"
  ELSE IF "keys" \in DOMAIN c /\ ~KeysAreGrid(c.keys, c.name, c.numblocks) THEN "keys-are-not-the-advertised-grid"
  ELSE IF "name_after" \in DOMAIN c /\ c.name_after # c.name THEN "name-changed-by-optimization"
  ELSE "ok"

(***************************************************************************)
(* Recorded executions (C10, C21): ev is a sequence of                     *)
(*   [k, out, pre, post] : task k ran; pre/post are sequences <<id, fp>>   *)
(*   of every live stored value (and of the user's source arrays, ids < 0) *)
(*   before / after the task; out = fingerprint of the task's result.      *)
(* ref: sequence (by id) of the reference fingerprints (first schedule).   *)
(***************************************************************************)
FpOf(pairs, id) == LET hit == {j \in 1..Len(pairs) : pairs[j][1] = id} IN IF hit = {} THEN "?" ELSE pairs[CHOOSE j \in hit : TRUE][2]

\* fold state: [s, verdict]
StepRun(G, ref, acc, e) ==
  IF acc.v # "ok" THEN acc
  ELSE IF ~ExecEnabled(G, acc.s, e.k) THEN [acc EXCEPT !.v = "task-ran-before-its-dependencies-or-twice"]
  ELSE IF \E j \in 1..Len(e.pre) : FpOf(e.post, e.pre[j][1]) # e.pre[j][2] THEN [acc EXCEPT !.v = "task-modified-a-live-value"]
  ELSE IF \E d \in acc.s.done : FpOf(e.pre, d) # "?" /\ FpOf(e.pre, d) # acc.s.store[d] THEN [acc EXCEPT !.v = "stored-value-changed-between-tasks"]
  ELSE IF ref # <<>> /\ ref[e.k] # "" /\ e.out # ref[e.k] THEN [acc EXCEPT !.v = "result-depends-on-schedule"]
  ELSE [s |-> ExecApply(acc.s, e.k, e.out), v |-> "ok"]

RunVerdict(c) ==
  LET G == c.g
      fin == FoldLeft(LAMBDA acc, e : StepRun(G, c.ref, acc, e), [s |-> S0, v |-> "ok"], c.ev)
  IN IF fin.v # "ok" THEN fin.v
     ELSE IF ~(SeqSet(G.outs) \subseteq fin.s.done) THEN "schedule-did-not-produce-the-outputs"
     ELSE IF "src_pre" \in DOMAIN c /\ c.src_pre # c.src_post THEN "source-array-modified"
     ELSE "ok"

(***************************************************************************)
(* Frisky records (C21): the record graph must be well-formed and every     *)
(* output key must carry the block value of the dask graph.                 *)
(* c.g: the record graph; c.outvals: sequence of [id, rec, dask] (value     *)
(* fingerprints of one output block via the records and via the dask graph) *)
(***************************************************************************)
RecordsVerdict(c) ==
  \* (a key defined by two records is not judged: equal names denote equal arrays is C06's subject)
  IF GraphVerdict(c) # "ok" THEN "records:" \o GraphVerdict(c)
  ELSE IF \E j \in 1..Len(c.outvals) : c.outvals[j].rec # c.outvals[j].dask THEN "records-block-value-differs-from-the-dask-graph"
  ELSE "ok"

(***************************************************************************)
(* (1) Model checking: all schedules of small graphs.                      *)
(* Values are abstract: F(k, inputs) is an uninterpreted function of the   *)
(* dependency values, modelled as the pair <<k, sorted dep values>>.       *)
(***************************************************************************)
CONSTANTS MCMode        \* "off" when the module is only used for verdicts; "pure" | "impure" for model checking
VARIABLES g, st
mcvars == <<g, st>>

Diamond == [n |-> 4, defd |-> <<1, 2, 3, 4>>, deps |-> <<<<>>, <<1>>, <<1>>, <<2, 3>>>>, outs |-> <<4>>]
Chain3  == [n |-> 3, defd |-> <<1, 2, 3>>, deps |-> <<<<>>, <<1>>, <<2>>>>, outs |-> <<3>>]
Fan     == [n |-> 6, defd |-> <<1, 2, 3, 4, 5, 6>>, deps |-> <<<<>>, <<>>, <<1, 2>>, <<1>>, <<2>>, <<3, 4, 5>>>>, outs |-> <<6, 4>>]
TwoOut  == [n |-> 5, defd |-> <<1, 2, 3, 4, 5>>, deps |-> <<<<>>, <<1>>, <<1>>, <<2>>, <<3, 2>>>>, outs |-> <<4, 5>>]
MCGraphs == {Diamond, Chain3, Fan, TwoOut}

Val(G, store, k) == <<k, [j \in 1..Len(G.deps[k]) |-> store[G.deps[k][j]]]>>
MCInit == g \in MCGraphs /\ st = S0
MCExec(k) ==
  /\ ExecEnabled(g, st, k)
  /\ IF MCMode = "impure" /\ Len(g.deps[k]) > 0
     THEN \* the mutant: a task "updates in place" its first dependency
          st' = [done |-> st.done \cup {k},
                 store |-> [j \in st.done \cup {k} |->
                              IF j = k THEN Val(g, st.store, k)
                              ELSE IF j = g.deps[k][1] THEN <<-k, <<>>>> ELSE st.store[j]]]
     ELSE st' = ExecApply(st, k, Val(g, st.store, k))
  /\ UNCHANGED g
MCNext == \E k \in 1..g.n : MCExec(k)
MCSpec == MCInit /\ [][MCNext]_mcvars

\* the reference result of key k: evaluated in dependency order
RECURSIVE RefVal(_, _)
RefVal(G, k) == <<k, [j \in 1..Len(G.deps[k]) |-> RefVal(G, G.deps[k][j])]>>
ScheduleIndependent == \A k \in st.done : st.store[k] = RefVal(g, k)
NoDeadlockBeforeDone == (st.done # Defd(g)) => \E k \in 1..g.n : ExecEnabled(g, st, k)
MCTypeOK == st.done \subseteq Defd(g) /\ \A k \in st.done : DepsOf(g, k) \subseteq st.done
=============================================================================
