------------------------------ MODULE Planner ------------------------------
(***************************************************************************)
(* L1 (relations, not algorithms): what the planning helpers of            *)
(* dask_array may return.  Each Verdict operator returns "ok" or the name  *)
(* of the first clause of the property that the observed output breaks.    *)
(*  - slice algebra (C13)                                                  *)
(*  - rechunk plans and crosswalks (C15)                                   *)
(*  - chunk normalisation (C16)                                            *)
(*  - chunk unification layouts (C17)                                      *)
(*  - moved fraction / transfer estimates (C27)                            *)
(* Input domains (what TLC enumerates) are the Dom* operators.             *)
(***************************************************************************)
EXTENDS ChunkAlgebra

(***************************************************************************)
(* C13 slice algebra                                                       *)
(***************************************************************************)
OptInts(lo, hi) == {None} \cup (lo..hi)
Steps(smax) == {None} \cup {s \in (-smax)..smax : s # 0}

SliceIx(a, b, s) == [k |-> "slice", start |-> a, stop |-> b, step |-> s]
IntIx(i) == [k |-> "int", i |-> i]

\* Input domains are emitted as compact integer tuples (the driver rebuilds the
\* records): a slice is the triple <<start, stop, step>>.
\* every slice with |start|,|stop| <= n + pad and 0 < |step| <= smax
DomSlices(n, smax, pad) == OptInts(-n - pad, n + pad) \X OptInts(-n - pad, n + pad) \X Steps(smax)
DomIntIdx(n) == (-n)..(n - 1)
SliceOf(t) == SliceIx(t[1], t[2], t[3])

DomNormalize(nmax, smax, pad) ==
  UNION {{<<n, e[1], e[2], e[3]>> : e \in DomSlices(n, smax, pad)} : n \in 0..nmax}

\* normalisation must keep the selected positions
NormalizeVerdict(c) ==
  IF ~(c.out.k = "slice") THEN "not-a-slice"
  ELSE IF Sel(c.out, c.n) # Sel(c.e, c.n) THEN "selected-positions-changed"
  ELSE "ok"

DomPosify(nmax) == UNION {{<<n, i>> : i \in DomIntIdx(n)} : n \in 1..nmax}
PosifyVerdict(c) == IF c.out = PosInt(c.e.i, c.n) THEN "ok" ELSE "wrong-position"

\* per-block plans: every chunking of every axis length, every index element
DomBlockPlan(nmax, smax, pad) ==
  UNION {UNION {{<<n, c, 0, e[1], e[2], e[3]>> : e \in DomSlices(n, smax, pad)} \cup {<<n, c, 1, i, 0, 0>> : i \in DomIntIdx(n)}
                : c \in Chunkings(n)} : n \in 1..nmax}

\* out.plan : sequence of <<block, element>>; out.blockdim: sequence (slices only);
\* out.sliced: _compute_sliced_chunks (unit-step slices only, else <<>> with out.has_sliced = 0)
BlockPlanVerdict(c) ==
  LET neg == IsSliceIx(c.e) /\ StepOf(c.e) < 0
      pv  == PlanVerdict(c.out.plan, c.c, c.e)
  IN IF pv # "ok" THEN pv
     ELSE IF IsIntIx(c.e) THEN
          (IF Len(c.out.plan) = 1 /\ IsIntIx(c.out.plan[1][2]) THEN "ok" ELSE "int-plan-not-single-int")
     ELSE IF \E j \in 1..Len(c.out.plan) : ~IsSliceIx(c.out.plan[j][2]) THEN "slice-plan-has-int"
     ELSE IF c.out.blockdim # PlanChunks(c.out.plan, c.c, neg) THEN "blockdim-differs-from-piece-lengths"
     ELSE IF SumSeq(c.out.blockdim) # Len(Sel(c.e, c.n)) THEN "blockdim-sum-wrong"
     ELSE IF c.out.has_sliced = 1 /\ StepOf(c.e) = 1 /\ c.out.sliced # InducedChunks(c.c, c.e)
          THEN "region-chunks-differ-from-piece-lengths"
     ELSE IF c.out.has_sliced = 1 /\ SumSeq(c.out.sliced) # Len(Sel(c.e, c.n)) THEN "region-chunks-sum-wrong"
     ELSE "ok"

\* fusion: a (slice) then b (slice or int valid on the result of a)
DomFuse(nmax, smax, pad) ==
  UNION {UNION {LET m == Len(Sel(SliceOf(a), n)) IN
                  {<<n, a[1], a[2], a[3], 0, b[1], b[2], b[3]>> : b \in DomSlices(m, smax, pad)}
                  \cup {<<n, a[1], a[2], a[3], 1, i, 0, 0>> : i \in DomIntIdx(m)}
                : a \in DomSlices(n, smax, pad)} : n \in 0..nmax}

\* out.declined = 1 (NotImplementedError) or out.r = fused element
FuseVerdict(c) ==
  IF c.out.declined = 1 THEN "ok"
  ELSE LET first == Sel(c.a, c.n)
           want  == Compose(first, SelIx(c.b, Len(first)))
       IN IF IsIntIx(c.b) # IsIntIx(c.out.r) THEN "kind-changed"
          ELSE IF IsIntIx(c.out.r) /\ ~IntInBounds(c.out.r.i, c.n) THEN "fused-int-out-of-bounds"
          ELSE IF SelIx(c.out.r, c.n) # want THEN "fused-selection-differs"
          ELSE "ok"

\* region composition (used for reads pushed into sources): unit steps only
UnitSlices(n, pad) == OptInts(-n - pad, n + pad) \X OptInts(-n - pad, n + pad) \X {None, 1}
DomCompose(nmax, pad) ==
  UNION {UNION {{<<n, a[1], a[2], a[3], b[1], b[2], b[3]>> : b \in UnitSlices(Len(Sel(SliceOf(a), n)), pad)}
                : a \in UnitSlices(n, pad)} : n \in 0..nmax}
ComposeVerdict(c) ==
  LET first == Sel(c.a, c.n)
  IN IF Sel(c.out, c.n) # Compose(first, Sel(c.b, Len(first))) THEN "composed-selection-differs" ELSE "ok"

=============================================================================
