------------------------------ MODULE Planner ------------------------------
(***************************************************************************)
(* L1 (relations, not algorithms): what the planning helpers of            *)
(* dask_array may return.  Each Verdict operator returns "ok" or the name  *)
(* of the first clause of the property that the observed output breaks.    *)
(*  - slice algebra (C13)                                                  *)
(*  - rechunk plans and crosswalks (C15)                                   *)
(*  - chunk normalisation (C16)                                            *)
(*  - chunk unification layouts (C17)                                      *)
(*  - moved fraction / transfer estimates (C27)                            *)
(* Input domains (what TLC enumerates) are the Dom* operators.             *)
(***************************************************************************)
EXTENDS ChunkAlgebra

(***************************************************************************)
(* C13 slice algebra                                                       *)
(***************************************************************************)


\* Input domains are emitted as compact integer tuples (the driver rebuilds the
\* records): a slice is the triple <<start, stop, step>>.
\* every slice with |start|,|stop| <= n + pad and 0 < |step| <= smax
DomSlices(n, smax, pad) == OptInts(-n - pad, n + pad) \X OptInts(-n - pad, n + pad) \X Steps(smax)
DomIntIdx(n) == (-n)..(n - 1)
SliceOf(t) == SliceIx(t[1], t[2], t[3])

DomNormalize(nmax, smax, pad) ==
  UNION {{<<n, e[1], e[2], e[3]>> : e \in DomSlices(n, smax, pad)} : n \in 0..nmax}

\* normalisation must keep the selected positions
NormalizeVerdict(c) ==
  IF ~(c.out.k = "slice") THEN "not-a-slice"
  ELSE IF Sel(c.out, c.n) # Sel(c.e, c.n) THEN "selected-positions-changed"
  ELSE "ok"

DomPosify(nmax) == UNION {{<<n, i>> : i \in DomIntIdx(n)} : n \in 1..nmax}
PosifyVerdict(c) == IF c.out = PosInt(c.e.i, c.n) THEN "ok" ELSE "wrong-position"

\* per-block plans: every chunking of every axis length, every index element
DomBlockPlan(nmax, smax, pad) ==
  UNION {UNION {{<<n, c, 0, e[1], e[2], e[3]>> : e \in DomSlices(n, smax, pad)} \cup {<<n, c, 1, i, 0, 0>> : i \in DomIntIdx(n)}
                : c \in Chunkings(n)} : n \in 1..nmax}

\* out.plan : sequence of <<block, element>>; out.blockdim: sequence (slices only);
\* out.sliced: _compute_sliced_chunks (unit-step slices only, else <<>> with out.has_sliced = 0)
BlockPlanVerdict(c) ==
  LET neg == IsSliceIx(c.e) /\ StepOf(c.e) < 0
      pv  == PlanVerdict(c.out.plan, c.c, c.e)
  IN IF pv # "ok" THEN pv
     ELSE IF IsIntIx(c.e) THEN
          (IF Len(c.out.plan) = 1 /\ IsIntIx(c.out.plan[1][2]) THEN "ok" ELSE "int-plan-not-single-int")
     ELSE IF \E j \in 1..Len(c.out.plan) : ~IsSliceIx(c.out.plan[j][2]) THEN "slice-plan-has-int"
     ELSE IF c.out.blockdim # PlanChunks(c.out.plan, c.c, neg) THEN "blockdim-differs-from-piece-lengths"
     ELSE IF SumSeq(c.out.blockdim) # Len(Sel(c.e, c.n)) THEN "blockdim-sum-wrong"
     ELSE IF c.out.has_sliced = 1 /\ StepOf(c.e) = 1 /\ c.out.sliced # InducedChunks(c.c, c.e)
          THEN "region-chunks-differ-from-piece-lengths"
     ELSE IF c.out.has_sliced = 1 /\ SumSeq(c.out.sliced) # Len(Sel(c.e, c.n)) THEN "region-chunks-sum-wrong"
     ELSE "ok"

\* fusion: a (slice) then b (slice or int valid on the result of a)
DomFuse(nmax, smax, pad) ==
  UNION {UNION {LET m == Len(Sel(SliceOf(a), n)) IN
                  {<<n, a[1], a[2], a[3], 0, b[1], b[2], b[3]>> : b \in DomSlices(m, smax, pad)}
                  \cup {<<n, a[1], a[2], a[3], 1, i, 0, 0>> : i \in DomIntIdx(m)}
                : a \in DomSlices(n, smax, pad)} : n \in 0..nmax}

\* out.declined = 1 (NotImplementedError) or out.r = fused element
FuseVerdict(c) ==
  IF c.out.declined = 1 THEN "ok"
  ELSE LET first == Sel(c.a, c.n)
           want  == Compose(first, SelIx(c.b, Len(first)))
       IN IF IsIntIx(c.b) # IsIntIx(c.out.r) THEN "kind-changed"
          ELSE IF IsIntIx(c.out.r) /\ ~IntInBounds(c.out.r.i, c.n) THEN "fused-int-out-of-bounds"
          ELSE IF SelIx(c.out.r, c.n) # want THEN "fused-selection-differs"
          ELSE "ok"

\* region composition (used for reads pushed into sources): unit steps only
UnitSlices(n, pad) == OptInts(-n - pad, n + pad) \X OptInts(-n - pad, n + pad) \X {None, 1}
DomCompose(nmax, pad) ==
  UNION {UNION {{<<n, a[1], a[2], a[3], b[1], b[2], b[3]>> : b \in UnitSlices(Len(Sel(SliceOf(a), n)), pad)}
                : a \in UnitSlices(n, pad)} : n \in 0..nmax}
ComposeVerdict(c) ==
  LET first == Sel(c.a, c.n)
  IN IF Sel(c.out, c.n) # Compose(first, Sel(c.b, Len(first))) THEN "composed-selection-differs" ELSE "ok"

(***************************************************************************)
(* Grids                                                                   *)
(***************************************************************************)

(***************************************************************************)
(* C15 rechunk plans                                                       *)
(***************************************************************************)
\* configuration tuples <<itemsize, threshold, block-size limit (bytes), degree limit>>
RechunkShapes(p) ==
  CASE p = "q1d" -> {<<n>> : n \in 1..6}
    [] p = "q2d" -> {<<2, 3>>, <<3, 4>>, <<4, 4>>, <<1, 5>>, <<5, 2>>}
    [] p = "t1d" -> {<<n>> : n \in 1..6}
    [] p = "t2d" -> {<<a, b>> : a \in 1..3, b \in 1..4}
    [] p = "t3d" -> {<<2, 3, 3>>, <<2, 2, 4>>}
RechunkCfgs(p) ==
  CASE p \in {"q1d"} -> {<<8, 4, 64, 100>>, <<1, 1, 8, 2>>, <<8, 32, 8, 3>>}
    [] p \in {"q2d"} -> {<<8, 4, 64, 100>>, <<1, 1, 8, 100>>, <<8, 1, 8, 100>>, <<8, 2, 1024, 100>>, <<1, 32, 4, 100>>, <<8, 1, 64, 2>>}
    [] p \in {"t1d", "t2d", "t3d"} ->
         {<<i, t, l, d>> : i \in {1, 8}, t \in {1, 4, 32}, l \in {8, 64, 1024}, d \in {2, 3, 100}}
DomRechunk(p) ==
  UNION {{<<old, new, cfg>> : old \in GridsOf(sh), new \in GridsOf(sh), cfg \in RechunkCfgs(p)} : sh \in RechunkShapes(p)}

\* c: [old, new, itemsize, threshold, limit, degree, out |-> [plan, cw]]
\*  plan : sequence of grids;  cw[axis][newblock] : sequence of <<oldblock, lo, hi>>
StepWithinBudget(step, old, new, itemsize, limit) ==
  \/ itemsize * MaxBlockElems(step) <= limit
  \/ MaxBlockElems(step) <= Max2(MaxBlockElems(old), MaxBlockElems(new))

RechunkPlanVerdict(c) ==
  LET plan == c.out.plan
      shape == ShapeOfGrid(c.old)
  IN IF Len(plan) < 1 THEN "empty-plan"
     ELSE IF plan[Len(plan)] # c.new THEN "plan-does-not-end-in-new-chunks"
     ELSE IF \E s \in 1..Len(plan) : ~IsGridOf(plan[s], shape) THEN "step-is-not-a-chunking-of-the-shape"
     ELSE IF \E s \in 1..Len(plan) : ~StepWithinBudget(plan[s], c.old, c.new, c.itemsize, c.limit)
          THEN "step-exceeds-block-budget"
     ELSE IF Len(c.out.cw) # Len(c.old) THEN "crosswalk-rank"
     ELSE LET bad == {a \in 1..Len(c.old) : CrosswalkVerdict(c.old[a], c.new[a], c.out.cw[a]) # "ok"}
          IN IF bad # {} THEN CrosswalkVerdict(c.old[CHOOSE a \in bad : TRUE], c.new[CHOOSE a \in bad : TRUE],
                                                c.out.cw[CHOOSE a \in bad : TRUE])
             ELSE IF \E a \in 1..Len(c.old) : c.out.cw[a] # Crosswalk(c.old[a], c.new[a]) THEN "crosswalk-differs-from-unique-tiling"
             ELSE "ok"

DomMerge(nmax) == UNION {UNION {{<<c, k>> : k \in 1..Len(c)} : c \in Chunkings(n)} : n \in 1..nmax}
MergeVerdict(c) ==
  IF SumSeq(c.out) # SumSeq(c.c) THEN "sum-changed"
  ELSE IF Len(c.out) > c.k THEN "too-many-chunks"
  ELSE IF \E i \in 1..Len(c.out) : c.out[i] <= 0 THEN "non-positive-chunk"
  ELSE IF ~Refines(c.c, c.out) THEN "merge-cuts-a-chunk"
  ELSE "ok"

\* divide_to_width(c, w): the split pass of the planner (find_split_rechunk) divides every block wider than w.
\* Contract: only splits (every old boundary kept), every piece in 1..w, and minimal and even per old block:
\* block i becomes exactly ceil(c[i] / w) pieces whose widths differ by at most one.
DomDivide(nmax) == UNION {UNION {{<<c, w>> : w \in 1..n} : c \in Chunkings(n)} : n \in 1..nmax}
PiecesOf(out, c, i) == {j \in 1..Len(out) : Offset(c, i) <= Offset(out, j) /\ Offset(out, j) < Offset(c, i) + c[i]}
DivideVerdict(c) ==
  IF SumSeq(c.out) # SumSeq(c.c) THEN "sum-changed"
  ELSE IF \E j \in 1..Len(c.out) : c.out[j] <= 0 THEN "non-positive-piece"
  ELSE IF \E j \in 1..Len(c.out) : c.out[j] > c.k THEN "piece-wider-than-max-width"
  ELSE IF ~Refines(c.out, c.c) THEN "divide-merged-across-an-old-boundary"
  ELSE IF \E i \in 1..Len(c.c) : Cardinality(PiecesOf(c.out, c.c, i)) # CeilDiv(c.c[i], c.k) THEN "not-minimal-number-of-pieces"
  ELSE IF \E i \in 1..Len(c.c) : \E j1, j2 \in PiecesOf(c.out, c.c, i) : c.out[j1] - c.out[j2] > 1 THEN "pieces-uneven"
  ELSE "ok"

(***************************************************************************)
(* C16 chunk normalisation                                                 *)
(***************************************************************************)
\* per-axis spec <<kind, value>> : 0 uniform int c | 1 -1 | 2 None | 3 "auto" | 4 explicit chunking | 5 byte string
UniformChunks(n, c) ==
  IF n = 0 THEN <<0>>
  ELSE [i \in 1..CeilDiv(n, c) |-> IF i * c <= n THEN c ELSE n - (i - 1) * c]

AxisSpecs(n, withauto) ==
  {<<0, c>> : c \in 1..(n + 1)} \cup {<<1, 0>>, <<2, 0>>} \cup {<<4, c>> : c \in Chunkings(n)}
  \cup (IF withauto THEN {<<3, 0>>, <<5, 0>>} ELSE {})

NormShapes(p) ==
  CASE p = "q" -> {<<n>> : n \in 0..6} \cup {<<0, 3>>, <<2, 3>>, <<4, 3>>, <<1, 5>>}
    [] p = "t" -> {<<n>> : n \in 0..8} \cup {<<a, b>> : a \in 0..4, b \in 0..5} \cup {<<2, 3, 2>>, <<3, 0, 2>>}
\* <<itemsize, limit bytes>>
NormCfgs(p) == CASE p = "q" -> {<<1, 8>>, <<8, 64>>, <<4, 8>>} [] p = "t" -> {<<i, l>> : i \in {1, 4, 8}, l \in {8, 64, 512}}
SpecsOf(shape) ==
  CASE Len(shape) = 1 -> {<<a>> : a \in AxisSpecs(shape[1], TRUE)}
    [] Len(shape) = 2 -> {<<a, b>> : a \in AxisSpecs(shape[1], TRUE), b \in AxisSpecs(shape[2], TRUE)}
    [] Len(shape) = 3 -> {<<a, b, c>> : a \in AxisSpecs(shape[1], TRUE), b \in AxisSpecs(shape[2], TRUE) , c \in {<<3, 0>>, <<1, 0>>, <<0, 1>>}}
HasAuto(spec) == \E a \in 1..Len(spec) : spec[a][1] \in {3, 5}
\* previous_chunks: 0 = none, otherwise a grid (only offered when the spec has an auto axis)
PrevOf(shape, spec) == IF HasAuto(spec) /\ \A a \in 1..Len(shape) : shape[a] > 0 THEN {<<>>} \cup GridsOf(shape) ELSE {<<>>}
DomNormChunks(p) ==
  UNION {UNION {{<<sh, sp, cfg, prev>> : cfg \in (IF HasAuto(sp) THEN NormCfgs(p) ELSE {<<8, 64>>}), prev \in PrevOf(sh, sp)}
                : sp \in SpecsOf(sh)} : sh \in NormShapes(p)}

\* c: [shape, spec, itemsize, limit, prev, out |-> [raised, chunks]]
NormChunksVerdict(c) ==
  IF c.out.raised = 1 THEN "ok"
  ELSE LET o == c.out.chunks
           r == Len(c.shape)
           auto == {a \in 1..r : c.spec[a][1] \in {3, 5}}
           fixedprod == c.itemsize * ProdSeq([a \in 1..r |-> IF a \in auto THEN 1 ELSE MaxSeq(o[a])])
           allprod == c.itemsize * ProdSeq([a \in 1..r |-> MaxSeq(o[a])])
       IN IF Len(o) # r THEN "wrong-number-of-axes"
          ELSE IF \E a \in 1..r : Len(o[a]) = 0 THEN "empty-tuple-for-an-axis"
          ELSE IF \E a \in 1..r : ~IsChunking(o[a], c.shape[a]) THEN "axis-chunks-not-a-valid-chunking"
          ELSE IF \E a \in 1..r : c.spec[a][1] = 0 /\ o[a] # UniformChunks(c.shape[a], c.spec[a][2]) THEN "uniform-size-not-respected"
          ELSE IF \E a \in 1..r : c.spec[a][1] \in {1, 2} /\ o[a] # <<c.shape[a]>> THEN "full-axis-not-single-chunk"
          ELSE IF \E a \in 1..r : c.spec[a][1] = 4 /\ o[a] # c.spec[a][2] THEN "explicit-chunks-changed"
          ELSE IF auto # {} /\ fixedprod <= c.limit /\ allprod > c.limit THEN "auto-block-exceeds-byte-limit"
          ELSE "ok"

(***************************************************************************)
(* C17 chunk unification                                                   *)
(***************************************************************************)
\* operand: <<grid, labels, itemsize>>  (labels: sequence of index labels, one per axis)
\* presets give families of operand tuples
Opnd(g, l, i) == <<g, l, i>>
G1(a) == <<a>>
G2(a, b) == <<a, b>>
One == <<1>>
UnifyDom(p) ==
  CASE p = "q" ->
         \* two / three 1-D operands on one label; 2-D with 1-D broadcast; size-1 axes
         UNION {{<<Opnd(G1(a), <<1>>, i1), Opnd(G1(b), <<1>>, 8)>> : a \in Chunkings(n), b \in Chunkings(n), i1 \in {1, 8}} : n \in 1..6}
         \cup {<<Opnd(G2(a, b), <<1, 2>>, 8), Opnd(G1(c), <<2>>, 8)>> : a \in Chunkings(3), b \in Chunkings(4), c \in Chunkings(4)}
         \cup {<<Opnd(G2(a, b), <<1, 2>>, 8), Opnd(G2(c, One), <<1, 2>>, 1)>> : a \in Chunkings(4), b \in Chunkings(3), c \in Chunkings(4)}
         \cup {<<Opnd(G1(a), <<1>>, 8), Opnd(G1(b), <<1>>, 8), Opnd(G1(c), <<1>>, 1)>> : a \in Chunkings(5), b \in Chunkings(5), c \in Chunkings(5)}
    [] p = "t" ->
         UNION {{<<Opnd(G1(a), <<1>>, i1), Opnd(G1(b), <<1>>, i2)>> : a \in Chunkings(n), b \in Chunkings(n), i1 \in {1, 8}, i2 \in {1, 8}} : n \in 1..7}
         \cup {<<Opnd(G2(a, b), <<1, 2>>, i1), Opnd(G1(c), <<2>>, 8)>> : a \in Chunkings(4), b \in Chunkings(5), c \in Chunkings(5), i1 \in {1, 8}}
         \cup {<<Opnd(G2(a, b), <<1, 2>>, 8), Opnd(G2(c, One), <<1, 2>>, i2)>> : a \in Chunkings(5), b \in Chunkings(4), c \in Chunkings(5), i2 \in {1, 8}}
         \cup {<<Opnd(G2(a, b), <<1, 2>>, 8), Opnd(G2(c, d), <<2, 1>>, 8)>> : a \in Chunkings(4), b \in Chunkings(3), c \in Chunkings(3), d \in Chunkings(4)}
         \cup {<<Opnd(G1(a), <<1>>, 8), Opnd(G1(b), <<1>>, 8), Opnd(G1(c), <<1>>, 1)>> : a \in Chunkings(5), b \in Chunkings(5), c \in Chunkings(5)}
UnifyPolicies == {"auto", "coarse", "refine"}
UnifyLimits(p) == CASE p = "q" -> {16, 512} [] p = "t" -> {16, 4096}
DomUnify(p) == {<<ops, pol, lim>> : ops \in UnifyDom(p), pol \in UnifyPolicies, lim \in UnifyLimits(p)}

\* c: [ops (seq of [grid, labels, itemsize]), policy, limit, out |-> [raised, common (seq of <<label, chunks>>), grids (seq)]]
CommonOf(common, lab) == common[CHOOSE k \in 1..Len(common) : common[k][1] = lab][2]
UnifyVerdict(c) ==
  IF c.out.raised = 1 THEN "ok"
  ELSE LET n == Len(c.ops)
           shp(i) == ShapeOfGrid(c.ops[i].grid)
           bcast(i, a) == shp(i)[a] = 1
       IN IF Len(c.out.grids) # n THEN "operand-count"
          ELSE IF \E i \in 1..n : ~IsGridOf(c.out.grids[i], shp(i)) THEN "result-not-a-chunking-of-the-operand-shape"
          ELSE IF \E i \in 1..n : \E a \in 1..Len(shp(i)) :
                    ~bcast(i, a) /\ c.out.grids[i][a] # CommonOf(c.out.common, c.ops[i].labels[a])
               THEN "operand-not-on-the-common-layout"
          ELSE IF c.policy = "refine" /\ \E i \in 1..n : \E a \in 1..Len(shp(i)) : ~Refines(c.out.grids[i][a], c.ops[i].grid[a])
               THEN "refine-policy-merged-blocks"
          ELSE IF \E i \in 1..n :
                    c.ops[i].itemsize * MaxBlockElems(c.out.grids[i]) > Max2(c.limit, c.ops[i].itemsize * MaxBlockElems(c.ops[i].grid))
               THEN "block-inflated-beyond-limit"
          ELSE "ok"

(***************************************************************************)
(* C27 moved fraction                                                      *)
(***************************************************************************)
DomMoved(nmax) == UNION {{<<a, b>> : a \in Chunkings(n), b \in Chunkings(n)} : n \in 1..nmax}
\* out: [num, den, exact] (value = num/den; exact = 1 iff the float was exactly that rational)
MovedVerdict(c) ==
  IF c.out.den <= 0 THEN "bad-denominator"
  ELSE IF c.out.num < 0 THEN "negative-fraction"
  ELSE IF c.out.num > c.out.den THEN "fraction-above-one"
  ELSE IF c.src = c.dst /\ c.out.num # 0 THEN "identical-layouts-move-bytes"
  ELSE IF Refines(c.dst, c.src) /\ c.out.num # 0 THEN "pure-split-moves-bytes"
  ELSE "ok"

=============================================================================
