------------------------------- MODULE Naming -------------------------------
(***************************************************************************)
(* L1: names, registries and caches across SEVERAL programs in one process *)
(* (C06, C07, C09).                                                        *)
(*                                                                         *)
(* dask_array identifies expression nodes and graph keys by name: equal    *)
(* names are de-duplicated (SingletonExpr registry), lowered once (the     *)
(* process-wide lowering cache) and merged when graphs are combined.  The  *)
(* abstract state of a process is                                          *)
(*   content : name -> descriptor, the FIRST descriptor ever bound to it   *)
(*   cache   : name -> name, the lowering cache (weak: entries may vanish) *)
(*   cfg     : the planner configuration in effect                         *)
(* A descriptor is what the name denotes: [shape, chunks, dtype, fp] (fp:  *)
(* fingerprint of the block values).                                       *)
(*                                                                         *)
(*   Mint(n, d)      a node / key named n denoting d comes into existence  *)
(*                   (construction, a rewrite product, unpickling, a graph *)
(*                   key): enabled iff n is new or content[n] = d          *)
(*   LowerMiss(n, m) n is lowered to m under the current cfg and cached    *)
(*   LowerHit(n)     a later lowering of n returns cache[n]: sound iff it  *)
(*                   denotes what n denotes, whatever cfg is NOW           *)
(*   Evict(n), SetConfig(c)  always enabled                                *)
(* Invariant NameDeterminesContent is what makes de-duplication by name    *)
(* safe; CacheSound is what makes the shared lowering cache safe although  *)
(* lowering reads configuration.                                           *)
(***************************************************************************)
EXTENDS Integers, Sequences, FiniteSets, TLC

\* ---- model checking over a tiny universe
CONSTANTS NNames, NDescs, NCfgs      \* finite sets ({} when the module is used for verdicts only)
VARIABLES content, cache, ncfg
nvars == <<content, cache, ncfg>>
\* the denotation every name SHOULD have in the model: names are content-addressed, i.e. a function of the descriptor
\* chosen when the name is first minted; lowering maps a name to a name with the same descriptor
NInit == content = [n \in {} |-> 0] /\ cache = [n \in {} |-> 0] /\ ncfg \in NCfgs
Mint(n, d) == /\ (n \in DOMAIN content => content[n] = d)
              /\ content' = IF n \in DOMAIN content THEN content ELSE [m \in DOMAIN content \cup {n} |-> IF m = n THEN d ELSE content[m]]
              /\ UNCHANGED <<cache, ncfg>>
LowerMiss(n, m) == /\ n \in DOMAIN content /\ m \in DOMAIN content /\ n \notin DOMAIN cache
                   /\ content[m] = content[n]                      \* lowering preserves the denotation
                   /\ cache' = [k \in DOMAIN cache \cup {n} |-> IF k = n THEN m ELSE cache[k]]
                   /\ UNCHANGED <<content, ncfg>>
LowerHit(n) == n \in DOMAIN cache /\ UNCHANGED nvars
Evict(n) == n \in DOMAIN cache /\ cache' = [k \in DOMAIN cache \ {n} |-> cache[k]] /\ UNCHANGED <<content, ncfg>>
SetConfig(c) == ncfg' = c /\ UNCHANGED <<content, cache>>
NNext == \/ \E n \in NNames, d \in NDescs : Mint(n, d)
         \/ \E n, m \in NNames : LowerMiss(n, m)
         \/ \E n \in NNames : LowerHit(n) \/ Evict(n)
         \/ \E c \in NCfgs : SetConfig(c)
NSpec == NInit /\ [][NNext]_nvars
\* a hit returns something that denotes what the key denotes, under any configuration
CacheSound == \A n \in DOMAIN cache : content[cache[n]] = content[n]
NTypeOK == DOMAIN cache \subseteq DOMAIN content

(***************************************************************************)
(* Verdicts over recorded process histories.                               *)
(* c.ev: sequence of [name, desc, prior] : a node / key named `name`       *)
(* denoting `desc` was observed; `prior` is the descriptor this process    *)
(* had registered for that name before (the record [none |-> 1] if new).   *)
(***************************************************************************)
SameDesc(a, b) == a.shape = b.shape /\ a.chunks = b.chunks /\ a.dtype = b.dtype /\ a.fp = b.fp
MintOK(e) == "none" \in DOMAIN e.prior \/ SameDesc(e.prior, e.desc)
MintVerdict(c) ==
  LET bad == {j \in 1..Len(c.ev) : ~MintOK(c.ev[j])}
      j0 == CHOOSE j \in bad : \A q \in bad : j <= q
      e == c.ev[j0]
  IN IF bad = {} THEN "ok"
     ELSE IF e.prior.shape # e.desc.shape THEN "same-name-different-shape:" \o e.kind
     ELSE IF e.prior.chunks # e.desc.chunks THEN "same-name-different-chunks:" \o e.kind
     ELSE IF e.prior.dtype # e.desc.dtype THEN "same-name-different-dtype:" \o e.kind
     ELSE "same-name-different-values:" \o e.kind

\* C07: the same program built again (in this process, in a fresh process with another hash seed, through a pickle round
\* trip here and in a fresh process) must carry the same identity.  c.ref / c.others: records [how, name, keys, okeys,
\* fkeys, chunks, dtype, fp]
IdentityVerdict(c) ==
  LET bad(f(_)) == {j \in 1..Len(c.others) : f(c.others[j]) # f(c.ref)}
      first(S) == c.others[CHOOSE j \in S : \A q \in S : j <= q].how
  IN IF bad(LAMBDA r : r.name) # {} THEN "name-differs:" \o first(bad(LAMBDA r : r.name))
     ELSE IF bad(LAMBDA r : r.keys) # {} THEN "keys-differ:" \o first(bad(LAMBDA r : r.keys))
     ELSE IF bad(LAMBDA r : r.okeys) # {} THEN "optimized-graph-keys-differ:" \o first(bad(LAMBDA r : r.okeys))
     ELSE IF bad(LAMBDA r : r.fkeys) # {} THEN "frisky-output-keys-differ:" \o first(bad(LAMBDA r : r.fkeys))
     ELSE IF bad(LAMBDA r : r.chunks) # {} THEN "chunks-differ:" \o first(bad(LAMBDA r : r.chunks))
     ELSE IF bad(LAMBDA r : r.dtype) # {} THEN "dtype-differs:" \o first(bad(LAMBDA r : r.dtype))
     ELSE IF bad(LAMBDA r : r.fp) # {} THEN "values-differ:" \o first(bad(LAMBDA r : r.fp))
     ELSE "ok"
=============================================================================
