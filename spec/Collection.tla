----------------------------- MODULE Collection -----------------------------
(***************************************************************************)
(* L1: what a dask_array collection promises about itself, independent of  *)
(* how the optimizer gets there.  A collection advertises                  *)
(*     adv = [shape, chunks, dtype]                                        *)
(* (sizes may be Unk = unknown) and is observed through                    *)
(*   - its blocks: one value per block index of the advertised grid,       *)
(*   - its value in each optimizer phase (raw, simplified, lowered, fused, *)
(*     pinned graph),                                                      *)
(*   - each rewrite that fired: the sub-expression before and after.       *)
(* The operators below are the verdicts TLC evaluates on observations      *)
(* recorded from the implementation (C02, C03, C05, C14, C28).             *)
(***************************************************************************)
EXTENDS NdArray

IsUnk(v) == v = Unk

(***************************************************************************)
(* Advertised layout vs produced blocks (C03)                              *)
(***************************************************************************)
GridIdx(numblocks) == {UnravelS(k, numblocks, StridesOf(numblocks)) : k \in 0..(Size(numblocks) - 1)}
NumBlocksOf(chunks) == [a \in 1..Len(chunks) |-> Len(chunks[a])]

\* obs.blocks: sequence of [idx, shape, dtype]; obs.adv: [shape, chunks, dtype];
\* obs.result: [shape, dtype] of the assembled compute() result
BlocksVerdict(obs) ==
  LET adv == obs.adv
      nb == NumBlocksOf(adv.chunks)
      idxs == {obs.blocks[j].idx : j \in 1..Len(obs.blocks)}
  IN IF Len(adv.shape) # Len(adv.chunks) THEN "advertised-shape-and-chunks-differ-in-rank"
     ELSE IF \E a \in 1..Len(adv.shape) : ~IsUnk(adv.shape[a]) /\ (\E j \in 1..Len(adv.chunks[a]) : IsUnk(adv.chunks[a][j]))
          THEN "known-axis-with-unknown-chunks"
     ELSE IF \E a \in 1..Len(adv.shape) : ~IsUnk(adv.shape[a]) /\ SumSeq(adv.chunks[a]) # adv.shape[a]
          THEN "advertised-chunks-do-not-sum-to-shape"
     ELSE IF Len(obs.blocks) # Size(nb) \/ idxs # GridIdx(nb) THEN "block-grid-differs-from-advertised-numblocks"
     ELSE IF \E j \in 1..Len(obs.blocks) : Len(obs.blocks[j].shape) # Len(adv.chunks) THEN "block-rank-differs"
     ELSE IF \E j \in 1..Len(obs.blocks) : \E a \in 1..Len(adv.chunks) :
               LET c == adv.chunks[a][obs.blocks[j].idx[a] + 1]
               IN ~IsUnk(c) /\ obs.blocks[j].shape[a] # c
          THEN "block-size-differs-from-advertised-chunk"
     ELSE IF \E j \in 1..Len(obs.blocks) : obs.blocks[j].dtype # adv.dtype THEN "block-dtype-differs-from-advertised"
     ELSE IF obs.result.dtype # adv.dtype THEN "result-dtype-differs-from-advertised"
     ELSE IF Len(obs.result.shape) # Len(adv.shape) THEN "result-rank-differs-from-advertised"
     ELSE IF \E a \in 1..Len(adv.shape) : ~IsUnk(adv.shape[a]) /\ obs.result.shape[a] # adv.shape[a]
          THEN "result-shape-differs-from-advertised"
     \* unknown axes: the produced blocks must at least be mutually consistent and sum to the result
     ELSE IF \E a \in 1..Len(adv.shape) :
               IsUnk(adv.shape[a]) /\
               \E j1, j2 \in 1..Len(obs.blocks) :
                 obs.blocks[j1].idx[a] = obs.blocks[j2].idx[a] /\ obs.blocks[j1].shape[a] # obs.blocks[j2].shape[a]
          THEN "blocks-of-one-grid-line-disagree-on-an-unknown-size"
     ELSE "ok"

(***************************************************************************)
(* Values: an observed value is [shape, kind, data] in NdArray's           *)
(* representation ("f": <<num, den>>; den = -1 marks a float that has no   *)
(* small rational within tolerance, which never equals a denotation).      *)
(***************************************************************************)
SameValue(X, Y) ==
  /\ X.shape = Y.shape
  /\ Len(X.data) = Len(Y.data)
  /\ IF X.kind = "f" \/ Y.kind = "f"
     THEN /\ X.kind = Y.kind
          /\ \A k \in 1..Len(X.data) :
               \/ X.data[k] = Y.data[k]
               \/ (QIsNaN(X.data[k]) /\ QIsNaN(Y.data[k]))
               \* small rationals: cross-multiplication (guarded: TLC integers are 32-bit; fixed-point values with the
               \* denominator 10^6 are only ever compared by the pair equality above)
               \/ (X.data[k][2] > 0 /\ Y.data[k][2] > 0 /\ X.data[k][2] <= 5000 /\ Y.data[k][2] <= 5000
                   /\ X.data[k][1] * Y.data[k][2] = Y.data[k][1] * X.data[k][2])
     ELSE X.data = Y.data
SameKind(X, Y) == X.kind = Y.kind

\* obs.expect: the denotation computed by ArrayProgram.tla; obs.phases: sequence of [phase, val]
\* (val.kind = "raised" when that phase raised, with val.shape = <<>>, val.data = <<>>)
PhasesVerdict(obs) ==
  LET bad == {j \in 1..Len(obs.phases) : obs.phases[j].val.kind = "raised"}
      raw == obs.phases[1].val
      wrong == {j \in 1..Len(obs.phases) \ bad : ~SameValue(obs.phases[j].val, raw)}
      wkind == {j \in 1..Len(obs.phases) \ bad : ~SameKind(obs.phases[j].val, raw)}
      first(S) == CHOOSE j \in S : \A q \in S : j <= q
  IN IF obs.phases = <<>> THEN "no-phase-observed"
     \* a phase may only raise if the raw (unoptimized) form raises too (then nothing is claimed)
     ELSE IF 1 \in bad THEN "ok-raw-form-raises"
     ELSE IF wrong # {} THEN "phase-value-differs-from-raw:" \o obs.phases[first(wrong)].phase
     ELSE IF wkind # {} THEN "phase-dtype-kind-differs-from-raw:" \o obs.phases[first(wkind)].phase
     ELSE IF bad # {} THEN "phase-raised:" \o obs.phases[first(bad)].phase
     \* all forms agree with each other; whether they agree with NumPy is C01's question
     ELSE IF ~SameValue(raw, obs.expect) \/ ~SameKind(raw, obs.expect) THEN "ok-all-forms-agree-but-differ-from-the-denotation"
     ELSE "ok"

\* one fired rewrite: the replaced sub-expression and its replacement denote the same array
RewriteVerdict(obs) ==
  IF obs.before.kind = "raised" THEN "ok-before-not-evaluable"
  ELSE IF obs.after.kind = "raised" THEN "rewrite-result-raises"
  ELSE IF obs.before.shape # obs.after.shape THEN "rewrite-changed-shape"
  ELSE IF obs.before.dtype # obs.after.dtype THEN "rewrite-changed-dtype"
  ELSE IF ~SameValue(obs.before, obs.after) THEN "rewrite-changed-values"
  ELSE "ok"

(***************************************************************************)
(* Rechunk by specification (C14).  c: shape, prev (chunks of x), spec      *)
(* (per axis [k: "int", v] | "full" | "keep" | "auto"), balance (0/1), out   *)
(* (chunks of x.rechunk(spec)), norm (what normalize_chunks returns for     *)
(* the same spec, shape, dtype and previous chunks).                        *)
(***************************************************************************)
Uniform(n, v) == IF n = 0 THEN <<0>> ELSE [j \in 1..CeilDiv(n, v) |-> IF j * v <= n THEN v ELSE n - (j - 1) * v]
MinSeq(q) == FoldSeq(LAMBDA x, acc : Min2(x, acc), q[1], q)
Spread(q) == MaxSeq(q) - MinSeq(q)
\* Several collections computed in ONE graph (dask.compute(a, b)): each must have the value it has when computed alone.
\* c.members: sequence of [alone |-> value, together |-> value] (values as in "phases": records or "raised")
JointVerdict(c) ==
  IF \E j \in 1..Len(c.members) : c.members[j].alone.kind = "raised" THEN "ok-member-not-computable"
  ELSE IF \E j \in 1..Len(c.members) : c.members[j].together.kind = "raised" THEN "joint-compute-raises"
  ELSE IF \E j \in 1..Len(c.members) : ~SameValue(c.members[j].alone, c.members[j].together) THEN "joint-compute-differs-from-alone"
  ELSE "ok"

RechunkSpecVerdict(c) ==
  LET r == Len(c.shape)
      target(a) == CASE c.spec[a].k = "int" -> Uniform(c.shape[a], c.spec[a].v)
                     [] c.spec[a].k = "full" -> <<c.shape[a]>>
                     [] c.spec[a].k = "keep" -> c.prev[a]
                     [] OTHER -> c.norm[a]
  IN IF Len(c.out) # r THEN "rechunk-result-has-wrong-rank"
     ELSE IF \E a \in 1..r : ~IsLooseChunking(c.out[a], c.shape[a]) THEN "rechunk-result-is-not-a-chunking-of-the-shape"
     ELSE IF \E a \in 1..r : c.shape[a] > 0 /\ (\E j \in 1..Len(c.out[a]) : c.out[a][j] = 0) /\ c.spec[a].k # "keep"
          THEN "rechunk-result-has-a-zero-size-block"
     ELSE IF c.balance = 0 /\ c.out # c.norm THEN "rechunk-chunks-differ-from-normalized-spec"
     ELSE IF c.balance = 0 /\ \E a \in 1..r : c.out[a] # target(a) THEN "rechunk-chunks-differ-from-requested"
     ELSE IF c.balance = 1 /\ \E a \in 1..r : Len(c.out[a]) > Len(target(a)) THEN "balanced-rechunk-has-more-blocks-than-requested"
     ELSE "ok"

(***************************************************************************)
(* Unknown chunk sizes (C28).  c: expect (denotation), got (computed value  *)
(* or "raised"), adv (advertised layout when the value was computed),       *)
(* resolved (1 iff compute_chunk_sizes() was applied to the producer and    *)
(* nothing data-dependent happened since).                                 *)
(***************************************************************************)
UnknownVerdict(c) ==
  IF c.got.kind = "raised" THEN "ok-refused"
  ELSE IF ~SameValue(c.got, c.expect) THEN "wrong-value-or-shape-with-unknown-chunk-sizes"
  ELSE IF ~SameKind(c.got, c.expect) THEN "wrong-dtype-kind-with-unknown-chunk-sizes"
  ELSE IF c.resolved = 1 /\ \E a \in 1..Len(c.adv.chunks) : \E j \in 1..Len(c.adv.chunks[a]) : IsUnk(c.adv.chunks[a][j])
       THEN "chunk-sizes-still-unknown-after-compute_chunk_sizes"
  ELSE "ok"

(***************************************************************************)
(* Entry points (C05).  c.adv: [name, chunks, dtype] of x; c.expect: the    *)
(* denotation; c.entries: sequence of [entry, val, keeps (0/1), name,       *)
(* chunks, dtype]: the value obtained through that entry point and, for the *)
(* entry points that return a collection which must keep x's identity       *)
(* (x.persist, dask.persist, dask.optimize), its name / chunks / dtype.     *)
(* The first entry is x.compute(): if it raises nothing is claimed.         *)
(***************************************************************************)
EntryVerdict(c) ==
  LET E == c.entries
      first(S) == CHOOSE j \in S : \A q \in S : j <= q
      raised == {j \in 1..Len(E) : E[j].val.kind = "raised"}
      wrong == {j \in 1..Len(E) \ raised : ~SameValue(E[j].val, E[1].val) \/ ~SameKind(E[j].val, E[1].val)}
      renamed == {j \in 1..Len(E) \ raised : E[j].keeps = 1 /\ E[j].name # c.adv.name}
      rechunked == {j \in 1..Len(E) \ raised : E[j].keeps = 1 /\ E[j].chunks # c.adv.chunks}
      retyped == {j \in 1..Len(E) \ raised : E[j].keeps = 1 /\ E[j].dtype # c.adv.dtype}
  IN IF E = <<>> \/ 1 \in raised THEN "ok-x.compute-raises"
     ELSE IF wrong # {} THEN "entry-point-value-differs:" \o E[first(wrong)].entry
     ELSE IF raised # {} THEN "entry-point-raises:" \o E[first(raised)].entry
     ELSE IF renamed # {} THEN "entry-point-changes-name:" \o E[first(renamed)].entry
     ELSE IF rechunked # {} THEN "entry-point-changes-chunks:" \o E[first(rechunked)].entry
     ELSE IF retyped # {} THEN "entry-point-changes-dtype:" \o E[first(retyped)].entry
     ELSE IF ~SameValue(E[1].val, c.expect) THEN "ok-all-entry-points-agree-but-differ-from-the-denotation"
     ELSE "ok"

(***************************************************************************)
(* History and configuration independence (C09).  c.expect: the denotation *)
(* (a function of the program alone); c.obs: values of the collection      *)
(* computed at various points of a process history under various planner   *)
(* configurations.                                                         *)
(***************************************************************************)
HistoryVerdict(c) ==
  LET raised == {j \in 1..Len(c.obs) : c.obs[j].val.kind = "raised"}
      good == 1..Len(c.obs) \ raised
      ref == IF "first" \in DOMAIN c THEN c.first ELSE c.obs[CHOOSE j \in good : \A q \in good : j <= q].val
      wrong == {j \in good : ~SameValue(c.obs[j].val, ref) \/ ~SameKind(c.obs[j].val, ref)}
      first(S) == c.obs[CHOOSE j \in S : \A q \in S : j <= q].how
  IN IF good = {} THEN "ok-raises-always"
     ELSE IF wrong # {} THEN "value-depends-on-history-or-configuration:" \o first(wrong)
     ELSE IF raised # {} THEN "raises-depending-on-history-or-configuration:" \o first(raised)
     \* all observations agree; whether they agree with NumPy is C01's question
     ELSE IF ~SameValue(ref, c.expect) THEN "ok-all-observations-agree-but-differ-from-the-denotation"
     ELSE "ok"

\* fused task provenance: for every output block, the set of (external input, block) pairs the fused
\* graph reads equals the set the unfused lowered graph reads
FusionVerdict(obs) ==
  IF \E j \in 1..Len(obs.blocks) : {obs.blocks[j].fused[q] : q \in 1..Len(obs.blocks[j].fused)}
                                  # {obs.blocks[j].unfused[q] : q \in 1..Len(obs.blocks[j].unfused)}
  THEN "fused-block-reads-different-input-blocks"
  ELSE "ok"
=============================================================================
