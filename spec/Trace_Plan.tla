---------------------------- MODULE Trace_Plan ----------------------------
(***************************************************************************)
(* L2 binding for Planner.tla: every line of the case file is one observed *)
(* call of a planning helper of the implementation (inputs chosen by TLC,  *)
(* output recorded from the real function).  One state per case; the       *)
(* verdict of every case is evaluated by TLC against the relation.         *)
(***************************************************************************)
EXTENDS Planner, Json, IOUtils, TLC, TLCExt
Cases == ndJsonDeserialize(IOEnv.CASES)
VARIABLE i
Init == i = 0
Next == i < Len(Cases) /\ i' = i + 1

Verdict(c) ==
  CASE c.fn = "normalize_slice" -> NormalizeVerdict(c)
    [] c.fn = "posify_index"    -> PosifyVerdict(c)
    [] c.fn = "slice_plan"      -> BlockPlanVerdict(c)
    [] c.fn = "fuse_slice"      -> FuseVerdict(c)
    [] c.fn = "fuse_slice_raw"  -> FuseVerdict(c)
    [] c.fn = "compose_slices"  -> ComposeVerdict(c)
    [] c.fn = "plan_rechunk"    -> RechunkPlanVerdict(c)
    [] c.fn = "merge_to_number" -> MergeVerdict(c)
    [] c.fn = "divide_to_width" -> DivideVerdict(c)
    [] c.fn = "normalize_chunks" -> NormChunksVerdict(c)
    [] c.fn = "unify_chunks"    -> UnifyVerdict(c)
    [] c.fn = "moved_fraction"  -> MovedVerdict(c)
    [] OTHER -> "unknown-fn"

\* always TRUE; rejected cases are reported with the failing clause
Checked == i = 0 \/ LET v == Verdict(Cases[i]) IN (v = "ok" \/ PrintT(<<"REJECT", Cases[i].id, v>>))
AllConsumed == PrintT(<<"CONSUMED", TLCGet("stats").diameter - 1, Len(Cases)>>)
=============================================================================
