----------------------------- MODULE TreeReduce -----------------------------
(***************************************************************************)
(* L1: tree reductions (C18).                                              *)
(*                                                                         *)
(* dask_array reduces an axis in three kinds of steps: `chunk` turns every *)
(* block into a PARTIAL, `combine` merges a contiguous group of at most    *)
(* split_every partials into one partial, `aggregate` turns the last       *)
(* partial(s) into the result.  The partial of a reduction kind is         *)
(*   sum / prod / min / max / any / all : a value                          *)
(*   mean            : <<sum, n>>                                          *)
(*   var             : <<n, sum, sumsq>>  (exact rational arithmetic; the  *)
(*                     implementation's pairwise (n, mean, M2) update is   *)
(*                     algebraically the same partial)                     *)
(*   argmin / argmax : <<value, first index attaining it>>                 *)
(*   nan-variants    : the same over the non-NaN values, with counts       *)
(* State: the current sequence of partials along the axis.  Combine(i, k)  *)
(* replaces partials i..i+k-1 (k <= split_every) by their merge - TLC      *)
(* explores EVERY tree.  Invariant: whatever the chunking and the tree,    *)
(* aggregating the current partials gives the flat reduction of the data.  *)
(***************************************************************************)
EXTENDS NdArray, TLC

CONSTANTS TRKinds,      \* reduction kinds to explore
          TRLen,        \* maximal input length
          TRVals,       \* value domain (small integers; the model uses kind "i" values, NaN is the model value 99)
          TRSplit       \* split_every
NaNv == 99
IsN(v) == v = NaNv
Clean(vs) == SelectSeq(vs, LAMBDA v : ~IsN(v))
SumI(vs) == FoldLeft(LAMBDA a, v : a + v, 0, vs)

\* ---- partials
ChunkP(kind, vs, off) ==      \* vs: the values of one block, off: global position of its first element
  CASE kind = "sum" -> SumI(vs)
    [] kind = "nansum" -> SumI(Clean(vs))
    [] kind = "max" -> IF \E j \in 1..Len(vs) : IsN(vs[j]) THEN NaNv ELSE FoldLeft(LAMBDA a, v : Max2(a, v), vs[1], vs)
    [] kind = "min" -> IF \E j \in 1..Len(vs) : IsN(vs[j]) THEN NaNv ELSE FoldLeft(LAMBDA a, v : Min2(a, v), vs[1], vs)
    [] kind = "any" -> B(\E j \in 1..Len(vs) : vs[j] # 0)
    [] kind = "all" -> B(\A j \in 1..Len(vs) : vs[j] # 0)
    [] kind = "mean" -> <<SumI(vs), Len(vs)>>
    [] kind = "nanmean" -> <<SumI(Clean(vs)), Len(Clean(vs))>>
    [] kind = "var" -> <<Len(vs), SumI(vs), SumI([j \in 1..Len(vs) |-> vs[j] * vs[j]])>>
    [] kind = "argmax" -> LET m == FoldLeft(LAMBDA a, v : Max2(a, v), vs[1], vs)
                              j == CHOOSE q \in 1..Len(vs) : vs[q] = m /\ \A p \in 1..(q - 1) : vs[p] # m
                          IN <<m, off + j - 1>>
MergeP(kind, a, b) ==
  CASE kind \in {"sum", "nansum"} -> a + b
    [] kind = "max" -> IF IsN(a) \/ IsN(b) THEN NaNv ELSE Max2(a, b)
    [] kind = "min" -> IF IsN(a) \/ IsN(b) THEN NaNv ELSE Min2(a, b)
    [] kind = "any" -> B(a # 0 \/ b # 0)
    [] kind = "all" -> B(a # 0 /\ b # 0)
    [] kind \in {"mean", "nanmean"} -> <<a[1] + b[1], a[2] + b[2]>>
    [] kind = "var" -> <<a[1] + b[1], a[2] + b[2], a[3] + b[3]>>
    [] kind = "argmax" -> IF b[1] > a[1] THEN b ELSE a          \* ties: the earlier block wins (first occurrence)
AggP(kind, p) ==
  CASE kind \in {"mean", "nanmean"} -> IF p[2] = 0 THEN <<0, 0>> ELSE QNorm(<<p[1], p[2]>>)
    [] kind = "var" -> QNorm(<<p[1] * p[3] - p[2] * p[2], p[1] * p[1]>>)        \* E[x^2] - E[x]^2 as one fraction
    [] kind = "argmax" -> p[2]
    [] OTHER -> p

\* ---- the flat (reference) result
Flat(kind, vs) == AggP(kind, ChunkP(kind, vs, 0))

\* ---- the tree machine
VARIABLES trkind, trdata, trparts
trvars == <<trkind, trdata, trparts>>
ChunkAll(kind, data, c) == [b \in 1..Len(c) |-> ChunkP(kind, SubSeq(data, Offset(c, b) + 1, Offset(c, b) + c[b]), Offset(c, b))]
DataOK(kind, d) == (kind \in {"sum", "mean", "var", "any", "all", "argmax"} => \A j \in 1..Len(d) : ~IsN(d[j]))
TRInit == \E kind \in TRKinds : \E n \in 1..TRLen : \E d \in [1..n -> TRVals] : \E c \in Chunkings(n) :
            /\ DataOK(kind, d)
            /\ trkind = kind /\ trdata = d /\ trparts = ChunkAll(kind, d, c)
Combine(i, k) ==
  /\ k >= 2 /\ k <= TRSplit /\ i + k - 1 <= Len(trparts)
  /\ trparts' = SubSeq(trparts, 1, i - 1)
                \o <<FoldLeft(LAMBDA a, p : MergeP(trkind, a, p), trparts[i], SubSeq(trparts, i + 1, i + k - 1))>>
                \o SubSeq(trparts, i + k, Len(trparts))
  /\ UNCHANGED <<trkind, trdata>>
TRNext == \E i \in 1..Len(trparts) : \E k \in 2..TRSplit : Combine(i, k)
TRSpec == TRInit /\ [][TRNext]_trvars
\* in EVERY state (after any sequence of combines of any contiguous groups) the partials still determine the flat result
TreeIndependent ==
  AggP(trkind, FoldLeft(LAMBDA a, p : MergeP(trkind, a, p), trparts[1], SubSeq(trparts, 2, Len(trparts)))) = Flat(trkind, trdata)
=============================================================================
