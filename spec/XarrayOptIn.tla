---------------------------- MODULE XarrayOptIn ----------------------------
(***************************************************************************)
(* L1: xarray integration is strictly opt-in (C26).                        *)
(*                                                                         *)
(* State of an interpreter: which modules were imported (`loaded`), which  *)
(* chunk manager xarray uses for "dask" (`manager`: "stock" until          *)
(* somebody replaces it, "ours" afterwards; "none" while xarray is not     *)
(* imported), and whether dask_array.xarray.register() was called.         *)
(*   ImportXarray        loaded' = loaded + {xarray}; manager stays/inits  *)
(*   Import(m)           any dask_array (sub)module: MUST NOT change       *)
(*                       manager (the mutant "eager" registers on import)  *)
(*   Register            manager' = "ours", registered' = TRUE             *)
(* Invariant OptIn: manager = "ours" => registered.                        *)
(***************************************************************************)
EXTENDS Integers, Sequences, FiniteSets, TLC

CONSTANTS XModules, XMode        \* XMode: "ok" | "eager" (spec mutant) | "off"
VARIABLES xloaded, xmanager, xregistered
xvars == <<xloaded, xmanager, xregistered>>
XInit == xloaded = {} /\ xmanager = "none" /\ xregistered = FALSE
ImportXarray == /\ "xarray" \notin xloaded
                /\ xloaded' = xloaded \cup {"xarray"}
                /\ xmanager' = IF xmanager = "none" THEN "stock" ELSE xmanager
                /\ UNCHANGED xregistered
Import(m) == /\ m \notin xloaded
             /\ xloaded' = xloaded \cup {m}
             /\ xmanager' = IF XMode = "eager" /\ m = "dask_array._xarray" THEN "ours" ELSE xmanager
             /\ UNCHANGED xregistered
Register == /\ xregistered' = TRUE /\ xmanager' = "ours"
            /\ xloaded' = xloaded \cup {"xarray", "dask_array._xarray", "dask_array.xarray"}
XNext == ImportXarray \/ Register \/ \E m \in XModules : Import(m)
XSpec == XInit /\ [][XNext]_xvars
OptIn == xmanager = "ours" => xregistered

(***************************************************************************)
(* Verdict over a recorded interpreter history.  c.ev: sequence of          *)
(* [step, manager, active] : after `step` ("import xarray", "import m",     *)
(* "register") xarray's dask chunk manager was `manager` ("stock" | "ours"  *)
(* | "none") and dask_array.xarray.isactive() returned `active` (0/1).      *)
(* c.values_equal: 1 iff the xarray computation on dask_array-backed data   *)
(* equalled the NumPy-backed one (-1: not run).                            *)
(***************************************************************************)
OptInVerdict(c) ==
  LET regpos == {j \in 1..Len(c.ev) : c.ev[j].step = "register"}
      before(j) == \A q \in regpos : j < q
      early == {j \in 1..Len(c.ev) : before(j) /\ (c.ev[j].manager = "ours" \/ c.ev[j].active = 1)}
      late == {j \in 1..Len(c.ev) : ~before(j) /\ (c.ev[j].manager # "ours" \/ c.ev[j].active # 1)}
      first(S) == c.ev[CHOOSE j \in S : \A q \in S : j <= q].step
  IN IF early # {} THEN "chunk-manager-replaced-without-register-after:" \o first(early)
     ELSE IF late # {} THEN "not-active-after-register:" \o first(late)
     ELSE IF c.values_equal = 0 THEN "xarray-result-differs-from-numpy-backed"
     ELSE "ok"
=============================================================================
