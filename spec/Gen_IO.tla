------------------------------ MODULE Gen_IO ------------------------------
(* Enumerates the input domain of the store check (C25) and writes it as ndjson:                       *)
(*   pairs of (source shape, source chunk grid, target = source extended by an offset region, with or without a step),        *)
(*   lock kind, compute, return_stored; one or two source/target pairs.                               *)
EXTENDS ChunkAlgebra, Json, IOUtils, TLC
CONSTANTS Tier
VARIABLE done
Shapes == IF Tier = "quick" THEN {<<4>>, <<2, 3>>} ELSE {<<4>>, <<5>>, <<2, 3>>, <<3, 4>>, <<2, 2, 3>>}
GridsFor(sh) == IF Tier = "quick" /\ Len(sh) > 1 THEN {g \in GridsOf(sh) : \A a \in 1..Len(sh) : Len(g[a]) <= 2} ELSE GridsOf(sh)
Offsets(sh) == IF Len(sh) = 1 THEN {<<0>>, <<2>>} ELSE IF Len(sh) = 2 THEN {<<0, 0>>, <<1, 2>>} ELSE {<<0, 0, 0>>, <<1, 0, 2>>}
\* a pair: source shape / grid, target shape (source shape + offset + one trailing element per axis), region offset;
\* useregion FALSE: target has exactly the source's shape and no region is passed
\* region steps (slices with a step: source element i goes to target position offset + step * i)
Ones(sh) == [a \in 1..Len(sh) |-> 1]
StepsFor(sh) == IF Len(sh) = 1 THEN {<<1>>, <<2>>} ELSE IF Len(sh) = 2 THEN {<<1, 1>>, <<2, 1>>, <<1, 3>>} ELSE {<<1, 1, 1>>, <<1, 2, 1>>}
PairSpecs == UNION {{[shape |-> sh, grid |-> g, offset |-> off, useregion |-> ur, step |-> st] :
                        g \in GridsFor(sh), off \in Offsets(sh), ur \in {TRUE, FALSE}, st \in {t \in StepsFor(sh) : TRUE}}
                    : sh \in Shapes}
Singles == {<<p>> : p \in {q \in PairSpecs : q.useregion \/ (q.step = Ones(q.shape) /\ \A a \in 1..Len(q.offset) : q.offset[a] = 0)}}
\* two pairs: the first over every spec, the second a fixed 1-D one with a different offset (regions differ per pair)
Second == [shape |-> <<3>>, grid |-> <<<<1, 2>>>>, offset |-> <<1>>, useregion |-> TRUE, step |-> <<1>>]
Doubles == {<<p, Second>> : p \in {q \in PairSpecs : q.useregion /\ Len(q.shape) <= 2}}
Cases == {[pairs |-> ps, lock |-> lk, compute |-> c, return_stored |-> rs] :
            ps \in Singles \cup Doubles, lk \in {"true", "false", "object"}, c \in {TRUE, FALSE}, rs \in {TRUE, FALSE}}
Init == done = FALSE
Next == /\ ~done
        /\ LET s == SetToSeq(Cases) IN
             /\ ndJsonSerialize(IOEnv.OUT, s)
             /\ PrintT(<<"GENERATED", Len(s)>>)
        /\ done' = TRUE
=============================================================================
