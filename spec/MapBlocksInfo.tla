--------------------------- MODULE MapBlocksInfo ---------------------------
(***************************************************************************)
(* L1: map_blocks with a function that receives block_info / block_id      *)
(* (C20).                                                                  *)
(*                                                                         *)
(* State: snap, the layout (chunks of the input, hence of the output)      *)
(* advertised at the moment map_blocks was CALLED, and the set of block     *)
(* locations the function has been invoked for.                            *)
(*   CallMapBlocks(chunks)  : snap' = chunks                               *)
(*   Invoke(rec)            : one invocation of the user function with     *)
(*                            rec = [shape (of the block it was given),     *)
(*                            info: chunk_location, array_location,         *)
(*                            chunk_shape?, num_chunks, shape; block_id?]   *)
(* Invoke is enabled only if rec describes a block of snap: its location    *)
(* lies on snap's grid, its array-location is the extent of that block in   *)
(* snap, and the block handed over has exactly that shape.  Rewrites above  *)
(* or below the call may cull invocations (fewer Invoke steps) or repeat    *)
(* them; they may never present a block of a different layout.              *)
(***************************************************************************)
EXTENDS ChunkAlgebra

InvokeOK(snap, rec) ==
  LET r == Len(snap)
      hasinfo == "info" \in DOMAIN rec
      hasid == "block_id" \in DOMAIN rec
      loc == IF hasinfo THEN rec.info.chunk_location ELSE rec.block_id
  IN IF Len(loc) # r THEN "location-has-wrong-rank"
     ELSE IF \E a \in 1..r : loc[a] < 0 \/ loc[a] >= Len(snap[a]) THEN "location-outside-the-advertised-grid"
     ELSE IF hasinfo /\ hasid /\ rec.block_id # rec.info.chunk_location THEN "block_id-differs-from-chunk-location"
     ELSE IF Len(rec.shape) # r THEN "block-has-wrong-rank"
     ELSE IF \E a \in 1..r : rec.shape[a] # snap[a][loc[a] + 1] THEN "block-shape-differs-from-advertised-chunk"
     ELSE IF hasinfo /\ \E a \in 1..r : rec.info.array_location[a] # <<Offset(snap[a], loc[a] + 1), Offset(snap[a], loc[a] + 1) + snap[a][loc[a] + 1]>>
          THEN "array-location-differs-from-advertised-layout"
     ELSE IF hasinfo /\ rec.info.chunk_shape # <<>> /\ \E a \in 1..r : rec.info.chunk_shape[a] # snap[a][loc[a] + 1]
          THEN "chunk-shape-differs-from-advertised-layout"
     ELSE IF hasinfo /\ rec.info.num_chunks # [a \in 1..r |-> Len(snap[a])] THEN "num-chunks-differs-from-advertised-layout"
     ELSE IF hasinfo /\ rec.info.shape # [a \in 1..r |-> SumSeq(snap[a])] THEN "array-shape-differs-from-advertised-layout"
     ELSE "ok"

\* the state machine (model-checked over a small layout with every candidate record)
CONSTANTS MBLayouts, MBRecs     \* layouts and candidate invocation records for model checking ({} when used for verdicts only)
VARIABLES mbsnap, mbseen
mbvars == <<mbsnap, mbseen>>
MBInit == mbsnap \in MBLayouts /\ mbseen = {}
Invoke(rec) == InvokeOK(mbsnap, rec) = "ok" /\ mbseen' = mbseen \cup {IF "info" \in DOMAIN rec THEN rec.info.chunk_location ELSE rec.block_id}
               /\ UNCHANGED mbsnap
MBNext == \E rec \in MBRecs : Invoke(rec)
MBSpec == MBInit /\ [][MBNext]_mbvars
\* every invoked location is a block of the snapshot
SeenOnGrid == \A loc \in mbseen : \A a \in 1..Len(mbsnap) : loc[a] >= 0 /\ loc[a] < Len(mbsnap[a])

\* ---- several inputs (map_blocks(f, a, b, drop_axis=...)): block_info[i] must describe the block of input i that the
\* function was actually handed.  Along an axis the block is either ONE block of the input's snapshot (location on the
\* grid, extent of that block) or, for an axis that is contracted away (drop_axis), the WHOLE axis.  In both cases the
\* extent announced in array-location is the size of what was handed over.
InputOK(snap, rec) ==
  LET r == Len(snap)
      one(a) == LET loc == rec.info.chunk_location[a] IN
                  /\ loc >= 0 /\ loc < Len(snap[a])
                  /\ rec.info.array_location[a] = <<Offset(snap[a], loc + 1), Offset(snap[a], loc + 1) + snap[a][loc + 1]>>
      whole(a) == rec.info.array_location[a] = <<0, SumSeq(snap[a])>>
  IN IF Len(rec.shape) # r \/ Len(rec.info.chunk_location) # r \/ Len(rec.info.array_location) # r THEN "input-info-has-wrong-rank"
     ELSE IF \E a \in 1..r : rec.shape[a] # rec.info.array_location[a][2] - rec.info.array_location[a][1]
          THEN "array-location-extent-differs-from-the-block-handed-over"
     ELSE IF \E a \in 1..r : ~one(a) /\ ~whole(a) THEN "array-location-is-neither-a-block-nor-the-whole-axis"
     ELSE IF rec.info.shape # [a \in 1..r |-> SumSeq(snap[a])] THEN "array-shape-differs-from-advertised-layout"
     ELSE "ok"
\* c.snaps: one snapshot per input; c.calls: sequence of [inputs |-> sequence of per-input records]
BlockInfo2Verdict(c) ==
  LET bad == {<<j, q>> \in (1..Len(c.calls)) \X (1..Len(c.snaps)) : InputOK(c.snaps[q], c.calls[j].inputs[q]) # "ok"}
  IN IF c.calls = <<>> THEN "ok-function-not-invoked"
     ELSE IF bad = {} THEN "ok"
     ELSE LET w == CHOOSE p \in bad : \A o \in bad : p[1] < o[1] \/ (p[1] = o[1] /\ p[2] <= o[2])
          IN "input-" \o ToString(w[2] - 1) \o ":" \o InputOK(c.snaps[w[2]], c.calls[w[1]].inputs[w[2]])

\* verdict over a recorded computation: c.snap, c.calls
BlockInfoVerdict(c) ==
  LET bad == {j \in 1..Len(c.calls) : InvokeOK(c.snap, c.calls[j]) # "ok"}
  IN IF bad = {} THEN "ok" ELSE InvokeOK(c.snap, c.calls[CHOOSE j \in bad : \A q \in bad : j <= q])
=============================================================================
