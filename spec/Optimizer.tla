----------------------------- MODULE Optimizer -----------------------------
(***************************************************************************)
(* L1: the optimizer as a pass machine over expression *names*.            *)
(*                                                                         *)
(* dask_array optimizes in three stages, each a fixpoint iteration:        *)
(*   simplify : expr -> simplify_once(expr) until the root name repeats    *)
(*   lower    : expr -> lower_once(expr)    until the root name repeats    *)
(*   fuse     : one pass                                                   *)
(* The state is the current root name, the stage, and the set of names     *)
(* already visited in the stage.  A pass either makes progress (a name     *)
(* never visited in this stage) or stutters (fixpoint: the stage ends).    *)
(* Returning to a name visited earlier in the stage is the oscillation     *)
(* that makes the real optimizer raise "Optimizer does not converge" or    *)
(* loop forever.  Optimizing the result again must stutter in every stage  *)
(* (idempotence: optimize(optimize(e)) has the name of optimize(e)).       *)
(*                                                                         *)
(* (1) model checking: with a finite name universe every behaviour ends in *)
(*     stage "done" within Cardinality(Names) progress steps per stage;    *)
(* (2) OptimizeVerdict: a recorded optimization (pass-by-pass root names)  *)
(*     must be a behaviour of the machine and satisfy the C08 clauses.     *)
(***************************************************************************)
EXTENDS Integers, Sequences, FiniteSets, SequencesExt, TLC

Stages == <<"simplify", "lower", "fuse", "done">>
NextStage(s) == CASE s = "simplify" -> "lower" [] s = "lower" -> "fuse" [] s = "fuse" -> "done" [] OTHER -> "done"

\* ---- the machine over state records m = [cur, stage, seen, steps]
M0(n) == [cur |-> n, stage |-> "simplify", seen |-> {n}, steps |-> 0]
ProgressOK(m, new) == m.stage # "done" /\ new \notin m.seen
Progress(m, new) == [m EXCEPT !.cur = new, !.seen = @ \cup {new}, !.steps = @ + 1]
Fixpoint(m) == [m EXCEPT !.stage = NextStage(m.stage), !.seen = {m.cur}]

CONSTANTS OptNames        \* finite universe of names for model checking ({} when the module is used for verdicts only)
VARIABLE om
OptInit == \E n \in OptNames : om = M0(n)
OptNext == \/ \E new \in OptNames : ProgressOK(om, new) /\ (om.stage # "fuse" \/ om.steps < 3 * Cardinality(OptNames)) /\ om' = Progress(om, new)
           \/ om.stage # "done" /\ om' = Fixpoint(om)
OptSpec == OptInit /\ [][OptNext]_om /\ WF_om(OptNext)
BoundedProgress == om.steps <= 3 * Cardinality(OptNames)
NeverRevisits == om.cur \in om.seen
EventuallyDone == <>(om.stage = "done")

(***************************************************************************)
(* Verdict over a recorded optimization.                                   *)
(* obs: raw_ok, err, stage (where err occurred), passes: sequence of       *)
(* [stage, name] (root name after every pass, including the stuttering     *)
(* last one of each stage), opt1/opt2, simp1/simp2, low1/low2 (names after *)
(* optimizing once / twice), opt_ok (the optimized graph executed).        *)
(***************************************************************************)
MaxPasses == 60
Revisit(p) == \E i, j \in 1..Len(p) : i + 1 < j /\ p[i].stage = p[j].stage /\ p[i].name = p[j].name
                                       /\ \E k \in (i + 1)..(j - 1) : p[k].name # p[i].name /\ p[k].stage = p[i].stage
OptimizeVerdict(obs) ==
  IF obs.raw_ok = 0 THEN "ok-raw-form-raises"
  ELSE IF obs.err # "" THEN "optimization-raised-on-a-computable-program:" \o obs.stage
  ELSE IF Len(obs.passes) > MaxPasses THEN "optimization-did-not-reach-a-fixpoint-within-the-pass-budget"
  ELSE IF Revisit(obs.passes) THEN "optimizer-revisits-a-name-it-left"
  ELSE IF obs.simp2 # obs.simp1 THEN "simplify-not-idempotent"
  ELSE IF obs.low2 # obs.low1 THEN "lower-not-idempotent"
  ELSE IF obs.opt2 # obs.opt1 THEN "optimize-not-idempotent"
  ELSE IF obs.opt_ok = 0 THEN "optimized-graph-raises-on-a-computable-program"
  ELSE "ok"
=============================================================================
