-------------------------- MODULE RandomRealization --------------------------
(***************************************************************************)
(* L1: a random array is ONE fixed realization (C23).                      *)
(*                                                                         *)
(* Constructing a random array from a seeded generator consumes generator  *)
(* state ONCE and fixes per-block seeds; everything afterwards - computing *)
(* twice, deriving, optimizing (which may re-instantiate the node),        *)
(* pickling, rebuilding from an equal seed - must see that realization.    *)
(*   state: rng (position of the generator), seeds (node -> seeds drawn),  *)
(*          seen (node -> fingerprint of the realization observed)         *)
(*   Construct(n)     seeds[n] := draw(rng); rng advances                  *)
(*   Reinstantiate(n) a rewrite / unpickle rebuilds node n: seeds[n] must  *)
(*                    NOT change (the mutant draws again)                  *)
(*   Observe(n, fp)   a computation exposes n's values: enabled iff n was  *)
(*                    never observed or fp = seen[n]                       *)
(***************************************************************************)
EXTENDS Integers, Sequences, FiniteSets, TLC

CONSTANTS RNodes, RMode       \* RMode: "ok" | "redraw" (spec mutant: Reinstantiate draws again) | "off"
VARIABLES rng, seeds, seen
rvars == <<rng, seeds, seen>>
RInit == rng = 0 /\ seeds = [n \in {} |-> 0] /\ seen = [n \in {} |-> 0]
Construct(n) == /\ n \notin DOMAIN seeds /\ rng < 3
                /\ seeds' = [m \in DOMAIN seeds \cup {n} |-> IF m = n THEN rng ELSE seeds[m]]
                /\ rng' = rng + 1 /\ UNCHANGED seen
Reinstantiate(n) == /\ n \in DOMAIN seeds /\ rng < 3
                    /\ IF RMode = "redraw" THEN seeds' = [seeds EXCEPT ![n] = rng] /\ rng' = rng + 1
                       ELSE UNCHANGED <<seeds, rng>>
                    /\ UNCHANGED seen
\* the values a computation exposes are a function of the node's seeds
ObserveM(n) == /\ n \in DOMAIN seeds
               /\ seen' = [m \in DOMAIN seen \cup {n} |-> IF m = n /\ n \notin DOMAIN seen THEN seeds[n] ELSE IF m = n THEN seen[n] ELSE seen[m]]
               /\ UNCHANGED <<rng, seeds>>
RNext == \E n \in RNodes : Construct(n) \/ Reinstantiate(n) \/ ObserveM(n)
RSpec == RInit /\ [][RNext]_rvars
\* what was observed first is what the node still is
OneRealization == \A n \in DOMAIN seen : seen[n] = seeds[n]

(***************************************************************************)
(* Verdict over a recorded history of one random base array.               *)
(* c.ev: sequence of [what, fp, want]: an observation `what` exposed the   *)
(* fingerprint fp where the realization (first compute of the base) gives  *)
(* want (for derived programs: the same program applied with NumPy to the  *)
(* realized base).                                                         *)
(***************************************************************************)
RealizationVerdict(c) ==
  LET bad == {j \in 1..Len(c.ev) : c.ev[j].fp # c.ev[j].want}
  IN IF bad = {} THEN "ok" ELSE "not-the-first-realization:" \o c.ev[CHOOSE j \in bad : \A q \in bad : j <= q].what
=============================================================================
