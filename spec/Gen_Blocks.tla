----------------------------- MODULE Gen_Blocks -----------------------------
(* Enumerates `.blocks[...]` index cases (C12): a source of a given shape and chunk grid holding 0..size-1 in C order, one block *)
(* index element per axis (integer, slice over the block grid, list of block numbers), and the expected result: the            *)
(* concatenation of the selected blocks (NdArray.Take over the positions of the selected blocks, per axis).                     *)
EXTENDS NdArray, Json, IOUtils, TLC
CONSTANTS Tier
VARIABLE done
Shapes == IF Tier = "quick" THEN {<<5>>, <<3, 4>>} ELSE {<<5>>, <<6>>, <<3, 4>>, <<2, 3, 2>>}
BIdx(nb) == {[k |-> "int", i |-> i] : i \in (-nb)..(nb - 1)}
            \cup {[k |-> "slice", start |-> a, stop |-> b, step |-> None] : a \in {None, 1}, b \in {None, nb - 1, -1}}
            \cup {[k |-> "slice", start |-> None, stop |-> None, step |-> -1]}
            \cup (IF nb >= 2 THEN {[k |-> "list", l |-> <<nb - 1, 0>>]} ELSE {})
BlockSel(e, nb) == CASE e.k = "int" -> <<PosInt(e.i, nb)>>
                     [] e.k = "slice" -> Sel(Slice(e.start, e.stop, e.step), nb)
                     [] OTHER -> [j \in 1..Len(e.l) |-> PosInt(e.l[j], nb)]
\* positions of the axis covered by the selected blocks, in selection order
Positions(c, e) == LET bs == BlockSel(e, Len(c))
                   IN Flatten([j \in 1..Len(bs) |-> [q \in 1..c[bs[j] + 1] |-> Offset(c, bs[j] + 1) + q - 1]])
RECURSIVE TakeAll(_, _, _, _)
TakeAll(A, g, bidx, a) == IF a > Len(g) THEN A ELSE TakeAll(Take(A, Positions(g[a], bidx[a]), a), g, bidx, a + 1)
TuplesOver(g) ==
  CASE Len(g) = 1 -> {<<e>> : e \in BIdx(Len(g[1]))}
    [] Len(g) = 2 -> {<<e, f>> : e \in BIdx(Len(g[1])), f \in BIdx(Len(g[2]))}
    [] OTHER -> {<<e, f, h>> : e \in {x \in BIdx(Len(g[1])) : x.k # "slice" \/ x.step = None}, f \in {[k |-> "int", i |-> 0], [k |-> "slice", start |-> None, stop |-> None, step |-> None]},
                               h \in BIdx(Len(g[3]))}
GridsFor(sh) == IF Len(sh) = 1 THEN GridsOf(sh) ELSE {g \in GridsOf(sh) : \A a \in 1..Len(sh) : Len(g[a]) <= 3}
\* two lists on different axes would be pointwise in NumPy terms: keep at most one list per index
OneList(t) == Cardinality({a \in 1..Len(t) : t[a].k = "list"}) <= 1
\* "the concatenation of the selected blocks" is only defined for a non-empty selection: every axis selects at least one block
NonEmptySel(g, t) == \A a \in 1..Len(t) : Len(BlockSel(t[a], Len(g[a]))) >= 1
Cases == UNION {UNION {{[shape |-> sh, grid |-> g, bidx |-> t, expect |-> TakeAll(Iota(sh, "i"), g, t, 1)] : t \in {u \in TuplesOver(g) : OneList(u) /\ NonEmptySel(g, u)}}
                       : g \in GridsFor(sh)} : sh \in Shapes}
Init == done = FALSE
Next == /\ ~done
        /\ LET s == SetToSeq(Cases) IN
             /\ ndJsonSerialize(IOEnv.OUT, s)
             /\ PrintT(<<"GENERATED", Len(s)>>)
        /\ done' = TRUE
=============================================================================
