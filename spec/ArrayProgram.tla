---------------------------- MODULE ArrayProgram ----------------------------
(***************************************************************************)
(* L1: the collection layer of dask_array as a state machine.              *)
(*                                                                         *)
(* A state is a program prefix `prog` (sequence of public-API actions)     *)
(* together with `env`, the *denotation* (NdArray value) of every          *)
(* collection the program has created.  Every action may use any live      *)
(* handle, so shared sub-expressions arise naturally.  TLC enumerates the  *)
(* behaviours (exhaustively for small parameter domains, or by simulation  *)
(* with randomly picked parameters) and emits each one as JSON; the        *)
(* harness replays it into the real library and compares the projection of *)
(* every real collection with env after every action.                      *)
(*                                                                         *)
(* What is predicted: values, shapes, kinds, and chunks where a property   *)
(* fixes them (sources, explicit rechunk targets).  Other layouts are the  *)
(* implementation's choice and are only constrained (Trace_Program).       *)
(***************************************************************************)
EXTENDS NdArray, Json, TLC, TLCExt, IOUtils

CONSTANTS
  Acts,       \* set of enabled action names
  Acts2,      \* action names enabled after the first non-source action ({} = same as Acts): directed corpora,
              \* e.g. "anything, then an operation the optimizer pushes down"
  Acts3,      \* action names enabled after the second non-source action ({} = same as the second level)
  MaxLen,     \* maximal number of non-source actions
  SrcPreset,  \* which source shapes / kinds Init offers
  Sim,        \* TRUE: parameters are picked with RandomElement (use with -simulate)
  SMax,       \* largest |step| of generated slices
  IdxPad,     \* how far slice bounds go beyond the axis length
  EmitAll,    \* TRUE: emit every program prefix; FALSE: only complete programs
  ExclPairs,  \* set of strings "producer>consumer" (or "producer>*"): a collection produced by the first is never
              \* an operand of the second (compositions excluded from a corpus, each tied to a known finding)
  Lean        \* TRUE: every parameter domain is reduced to boundary / interior representatives
              \* (used for exhaustive enumeration of programs of depth >= 2)

VARIABLES env,   \* handle -> current denotation (in-place actions replace an entry)
          prog,  \* the actions so far
          vals   \* vals[k]: the denotation action k produced (of the handle it created, or of its in-place target)
vars == <<env, prog, vals>>

Pick(S) == IF Sim THEN {RandomElement(S)} ELSE S
Coin(n) == IF Sim THEN RandomElement(1..n) = 1 ELSE FALSE    \* TRUE with probability 1/n (sim only)

\* L(full, lean): the parameter domain to enumerate
L(full, lean) == IF Lean THEN lean ELSE full

\* a random chunking: every interior boundary is a cut with probability 1/2
RandChunking(n) ==
  IF n = 0 THEN <<0>>
  ELSE LET cuts == {b \in 1..(n - 1) : RandomElement({TRUE, FALSE})}
           bs == SetToSortSeq(cuts \cup {0, n}, LAMBDA x, y : x < y)
       IN [j \in 1..(Len(bs) - 1) |-> bs[j + 1] - bs[j]]
RandGrid(shape) == [a \in 1..Len(shape) |-> RandChunking(shape[a])]
\* lean: per axis the whole axis, unit blocks, a short first block and a short last block
LeanChunkings(n) == IF n <= 1 THEN Chunkings(n) ELSE {<<n>>, [j \in 1..n |-> 1], <<1, n - 1>>, <<n - 1, 1>>}
LeanGrids(shape) == {g \in [1..Len(shape) -> UNION {LeanChunkings(shape[a]) : a \in 1..Len(shape)}] :
                       \A a \in 1..Len(shape) : g[a] \in LeanChunkings(shape[a])}
\* preset "cre7": every grid even in lean mode (ragged layouts whose odd block sits where no probe looks)
PickGrid(shape) == IF Sim THEN {RandGrid(shape)} ELSE IF Lean /\ SrcPreset # "cre7" THEN LeanGrids(shape) ELSE GridsOf(shape)

Err == [shape |-> <<>>, data |-> <<>>, kind |-> "err"]
IsErr(A) == A.kind = "err"
Live == {h \in 1..Len(env) : ~IsErr(env[h])}
NumKinds == {"i", "f"}
SmallEnough(shape) == Size(shape) <= 36 /\ Len(shape) <= 4

(***************************************************************************)
(* Sources                                                                 *)
(***************************************************************************)
SrcShapes ==
  CASE SrcPreset = "1d"    -> {<<n>> : n \in 0..5}
    [] SrcPreset = "1d7"   -> {<<n>> : n \in 0..7}
    [] SrcPreset = "2d"    -> {<<2, 3>>, <<3, 4>>, <<1, 4>>, <<4, 1>>, <<0, 3>>}
    [] SrcPreset = "mixed" -> {<<0>>, <<1>>, <<4>>, <<5>>, <<7>>, <<0, 3>>, <<1, 4>>, <<4, 1>>, <<2, 3>>, <<3, 4>>, <<4, 5>>,
                               <<2, 2, 3>>, <<2, 3, 4>>}
    [] SrcPreset = "small" -> {<<4>>, <<6>>, <<2, 3>>, <<3, 4>>, <<2, 2, 3>>}
    [] SrcPreset = "win"   -> {<<n>> : n \in 1..8} \cup {<<3, 5>>, <<4, 3>>}
    [] SrcPreset = "rnd"   -> {<<6>>, <<3, 4>>}
    [] SrcPreset = "red"   -> {<<5>>, <<7>>, <<3, 4>>, <<2, 3, 2>>}
    [] SrcPreset = "lean1" -> {<<5>>}
    [] SrcPreset = "lean2" -> {<<3, 4>>}
    [] SrcPreset = "lean3" -> {<<2, 3, 2>>}
    [] SrcPreset = "lean"  -> {<<5>>, <<3, 4>>, <<2, 3, 2>>}
    [] SrcPreset = "cre"   -> {<<6>>, <<3, 4>>}
    [] SrcPreset = "cube"  -> {<<2, 2, 2>>}
    [] SrcPreset = "cre7"  -> {<<7>>}
    [] SrcPreset = "sq"    -> {<<3, 3>>}
    \* many blocks along one axis (lean grids include the all-ones grid): scans and reduction trees over 9..33 blocks
    [] SrcPreset = "long"  -> {<<n>> : n \in {9, 13, 16, 17, 25, 32, 33}}
SrcKinds == CASE SrcPreset \in {"1d", "1d7", "lean", "lean1", "lean2", "lean3", "long", "sq"} -> {"i"} [] SrcPreset \in {"cube", "cre7"} -> {"i", "c"} [] SrcPreset = "rnd" -> {"i", "f"} [] SrcPreset = "red" -> {"i", "b", "n", "m"} [] SrcPreset = "cre" -> {"c"}
              [] OTHER -> {"i", "f", "b"}

\* source data: distinct small integers (index-mapping errors change values);
\* "f": halves (exact in binary floating point); "b": a fixed irregular pattern
SrcData(shape, kind, salt) ==
  [k \in 1..Size(shape) |->
     CASE kind = "i" -> (k - 1) + salt
       [] kind = "f" -> QNorm(<<2 * (k - 1) + 1 + 2 * salt, 2>>)
       [] kind = "b" -> B(((k + salt) * 3) % 5 < 2)
       \* "c": a constant creation array (da.full) built with a USER-PINNED name (C06: a rewrite product must not keep it)
       [] kind = "c" -> 3 + salt
       \* "n": inexact data with NaNs (every fourth element, starting at the second) and a repeated value
       [] kind = "n" -> IF k % 4 = 2 THEN QNaN ELSE QNorm(<<2 * ((k - 1) % 5) + 1 + 2 * salt, 2>>)
       \* "m": mostly NaN in an irregular pattern: blocks get lanes that are all-NaN next to lanes that are partly NaN
       [] kind = "m" -> IF (k * 7) % 5 < 3 THEN QNaN ELSE QNorm(<<2 * ((k - 1) % 5) + 1 + 2 * salt, 2>>)]
MkSrc(shape, kind, salt) == Arr(shape, SrcData(shape, kind, salt), IF kind \in {"n", "m"} THEN "f" ELSE IF kind = "c" THEN "i" ELSE kind)

\* chunk grid of a source: every grid (exhaustive: the replayer iterates over
\* the set `grids`) or one picked at random (simulation)
SrcAct(shape, kind, salt) ==
  [a |-> "Source", shape |-> shape, kind |-> kind, salt |-> salt,
   grids |-> PickGrid(shape)]

\* Simulation starts from the empty program (TLC computes initial states only once)
\* and picks 1-3 sources in its first step; exhaustive runs start from each source.
Init ==
  IF Sim THEN env = <<>> /\ prog = <<>> /\ vals = <<>>
  ELSE \E sh \in SrcShapes : \E k \in SrcKinds :
         /\ env = <<MkSrc(sh, k, 0)>>
         /\ vals = <<MkSrc(sh, k, 0)>>
         /\ prog = <<SrcAct(sh, k, 0) @@ [out |-> 1]>>

Start ==
  /\ Sim /\ env = <<>>
  /\ \E n \in {RandomElement({1, 1, 2, 2, 3})} :
       \E shs \in {[j \in 1..n |-> RandomElement(SrcShapes)]} :
         \E ks \in {[j \in 1..n |-> RandomElement(SrcKinds)]} :
           /\ env' = [j \in 1..n |-> MkSrc(shs[j], ks[j], j - 1)]
           /\ vals' = [j \in 1..n |-> MkSrc(shs[j], ks[j], j - 1)]
           /\ prog' = [j \in 1..n |-> SrcAct(shs[j], ks[j], j - 1) @@ [out |-> j]]

NActs == Cardinality({j \in 1..Len(prog) : prog[j].a # "Source"})
NumHandles == Len(env)
\* a terminal action (its denotation is a placeholder even in SHAPE) ends the program
Terminal == prog # <<>> /\ "terminal" \in DOMAIN prog[Len(prog)]
CanStep == env # <<>> /\ NActs < MaxLen /\ ~Terminal
Level2 == IF Acts2 = {} THEN Acts ELSE Acts2
Allowed(a) == IF NActs = 0 THEN a \in Acts ELSE IF NActs = 1 \/ Acts3 = {} THEN a \in Level2 ELSE a \in Acts3

Operands(act) ==
  (IF "x" \in DOMAIN act THEN {act.x} ELSE {}) \cup (IF "y" \in DOMAIN act THEN {act.y} ELSE {})
  \cup (IF "c" \in DOMAIN act THEN {act.c} ELSE {}) \cup (IF "xs" \in DOMAIN act THEN {act.xs[j] : j \in 1..Len(act.xs)} ELSE {})
\* the action that created handle h (in-place actions do not create handles)
IsInplace(act) == "inplace" \in DOMAIN act
ProdAct(h) == prog[CHOOSE j \in 1..Len(prog) : prog[j].out = h /\ ~IsInplace(prog[j])].a
PairOK(act) == \A h \in Operands(act) \ {0} : (ProdAct(h) \o ">" \o act.a) \notin ExclPairs /\ (ProdAct(h) \o ">*") \notin ExclPairs
\* lean (exhaustive deep) corpora: every action after the first consumes the most recent collection, so
\* a program of depth n is a genuine n-fold composition (operations on older handles are programs of the
\* shallower corpora); binary operations may still combine it with any older collection (sharing)
\* (an action without array operands - a second random base - starts a new chain)
ChainOK(act) == ~Lean \/ Sim \/ NActs = 0 \/ Len(env) \in Operands(act) \/ Operands(act) \ {0} = {}
Push(act, val) ==
  /\ PairOK(act) /\ ChainOK(act)
  /\ env' = Append(env, val)
  /\ vals' = Append(vals, val)
  /\ prog' = Append(prog, act @@ [out |-> Len(env) + 1])
\* in-place action on handle x: only env[x] changes (C11: every other collection keeps its denotation)
InPlace(act, x, val) ==
  /\ PairOK(act)
  /\ env' = [env EXCEPT ![x] = val]
  /\ vals' = Append(vals, val)
  /\ prog' = Append(prog, act @@ [out |-> x, inplace |-> TRUE])

(***************************************************************************)
(* Parameter domains                                                       *)
(***************************************************************************)
AxisIxDom(n) ==
  {SliceIx(a, b, s) : a \in OptInts(-n - IdxPad, n + IdxPad), b \in OptInts(-n - IdxPad, n + IdxPad), s \in Steps(SMax)}
  \cup {IntIx(i) : i \in (-n - 1)..n}
NoneIx == [k |-> "none"]
\* simulation: build a random element directly instead of enumerating the domain
LeanAxisIx(n, r) ==
  IF r = 1 THEN {SliceIx(None, None, None), SliceIx(1, None, None), SliceIx(None, -1, None), SliceIx(None, None, 2),
                 SliceIx(None, None, -1), SliceIx(1, n - 1, None), SliceIx(-2, None, -2), IntIx(0), IntIx(-1), IntIx(n)}
  ELSE IF r = 2 THEN {SliceIx(None, None, None), SliceIx(1, None, None), SliceIx(None, None, -1), SliceIx(None, -1, 2), IntIx(-1)}
  ELSE {SliceIx(None, None, None), SliceIx(1, None, None), IntIx(0)}
PickAxisIx(n) ==
  IF Sim
  THEN {IF Coin(5) THEN IntIx(RandomElement((-n - 1)..n))
        ELSE SliceIx(RandomElement(OptInts(-n - IdxPad, n + IdxPad)), RandomElement(OptInts(-n - IdxPad, n + IdxPad)),
                     RandomElement(Steps(SMax)))}
  ELSE AxisIxDom(n)
PickAxisIxR(n, r) == IF Lean /\ ~Sim THEN LeanAxisIx(n, r) ELSE PickAxisIx(n)


\* index tuples for a shape: one element per axis (all combinations when exhaustive),
\* optionally one None inserted
IdxTuples(shape) ==
  LET r == Len(shape)
      base == CASE r = 0 -> {<<>>}
                [] r = 1 -> {<<e>> : e \in PickAxisIxR(shape[1], r)}
                [] r = 2 -> {<<e, f>> : e \in PickAxisIxR(shape[1], r), f \in PickAxisIxR(shape[2], r)}
                [] r = 3 -> {<<e, f, g>> : e \in PickAxisIxR(shape[1], r), f \in PickAxisIxR(shape[2], r),
                                           g \in PickAxisIxR(shape[3], r)}
                [] r = 4 -> {<<e, f, g, h>> : e \in PickAxisIxR(shape[1], r), f \in PickAxisIxR(shape[2], r),
                                              g \in PickAxisIxR(shape[3], r), h \in PickAxisIxR(shape[4], r)}
  IN IF Sim THEN {IF Coin(4) THEN InsertAt(t, RandomElement(1..(Len(t) + 1)), NoneIx) ELSE t : t \in base}
     ELSE base \cup (IF r = 1 /\ ~Lean THEN {InsertAt(t, p, NoneIx) : t \in base, p \in 1..2} ELSE {})
               \cup (IF Lean /\ r \in {1, 2} THEN {InsertAt([a \in 1..r |-> SliceIx(None, None, None)], p, NoneIx) : p \in 1..(r + 1)}
                     ELSE {})

Perms(r) == {p \in [1..r -> 1..r] : {p[a] : a \in 1..r} = 1..r}
AxisSubsets(r) == (SUBSET (1..r)) \ {{}}
Factorizations(n) ==      \* shapes of rank <= 3 with the given size
  {<<n>>} \cup {<<a, n \div a>> : a \in {d \in 1..Max2(n, 1) : n % d = 0}}
  \cup {<<a, b, (n \div a) \div b>> : a \in {d \in 1..Max2(n, 1) : n % d = 0}, b \in {1, 2, 3}}
ValidFactorization(s, n) == Size(s) = n /\ \A a \in 1..Len(s) : s[a] >= 0
SetToSeqAsc(S) == SetToSortSeq(S, LAMBDA x, y : x < y)

(***************************************************************************)
(* Actions                                                                 *)
(***************************************************************************)
Index ==
  /\ Allowed("Index") /\ CanStep
  /\ \E x \in Pick(Live) : \E idx \in IdxTuples(env[x].shape) :
       Push([a |-> "Index", x |-> x, idx |-> idx, ok |-> IndexOK(env[x].shape, idx)],
            IF IndexOK(env[x].shape, idx) THEN BasicIndex(env[x], idx) ELSE Err)

\* several new axes mixed with integers and slices: every placement of 2 (or 3) None entries in an index whose
\* per-axis elements range over {full slice, 1:, ::-1, 0, -1}
NoneMixDom(n) == {SliceIx(None, None, None), SliceIx(1, None, None), SliceIx(None, None, -1), IntIx(0), IntIx(-1)}
IndexNone ==
  /\ Allowed("IndexNone") /\ CanStep
  /\ \E x \in Pick({h \in Live : Rank(env[h]) >= 1 /\ Rank(env[h]) <= 3}) :
       LET sh == env[x].shape r == Rank(env[x])
           base == CASE r = 1 -> {<<e>> : e \in NoneMixDom(sh[1])}
                     [] r = 2 -> {<<e, f>> : e \in NoneMixDom(sh[1]), f \in NoneMixDom(sh[2])}
                     [] r = 3 -> {<<e, f, g>> : e \in NoneMixDom(sh[1]), f \in NoneMixDom(sh[2]), g \in {SliceIx(None, None, None), IntIx(0)}}
           two == {InsertAt(InsertAt(t, p, NoneIx), q, NoneIx) : t \in base, p \in 1..(r + 1), q \in 1..(r + 2)}
           three == IF r <= 2 THEN {InsertAt(t, q, NoneIx) : t \in two, q \in 1..(r + 3)} ELSE {}
       IN \E idx \in Pick(two \cup three) :
            Push([a |-> "Index", x |-> x, idx |-> idx, ok |-> IndexOK(sh, idx)],
                 IF IndexOK(sh, idx) THEN BasicIndex(env[x], idx) ELSE Err)

\* A "diamond": one fusable node reached from the root along two paths that carry different transposes (blockwise
\* fusion has to notice when the two paths map the root's block index differently: C04 closure, C02 provenance).
\*   a = x + 1;  v = a second 1-D source;  r = T(p2, mid(T(p1, a))) + T(q, a)      mid in {+ v (broadcast), * 2, abs}
\* (no middle can cancel the other path's contribution: perturbing one source block changes every output block that reads it)
\* One step pushes the seven actions; every triple of 3-D permutations is enumerated.
MultiPush(acts, vs) ==
  /\ env' = env \o vs
  /\ vals' = vals \o vs
  /\ prog' = prog \o [j \in 1..Len(acts) |-> acts[j] @@ [out |-> Len(env) + j]]
DiamondAct ==
  /\ Allowed("Diamond") /\ CanStep
  /\ \E x \in Pick({h \in Live : Rank(env[h]) = 3 /\ env[h].kind = "i" /\ env[h].shape[1] = env[h].shape[2]
                                    /\ env[h].shape[2] = env[h].shape[3]}) :
     \E p1 \in Pick(Perms(3)) : \E p2 \in Pick(Perms(3)) : \E q \in Pick(Perms(3)) : \E mid \in Pick({"bcast", "scalar", "abs"}) :
     \E base \in Pick({"ew", "mb"}) :                          \* a = x + 1   or   a = map_blocks(double, x + 1)
       LET n == Len(env)
           k == IF base = "mb" THEN 1 ELSE 0                  \* handle offset after the optional map_blocks node
           vshape == <<env[x].shape[3]>>
           vv == MkSrc(vshape, "i", 1)                        \* a second (from_array) source: the broadcast operand
           v0 == Binary("add", env[x], Scalar(1, "i"))
           v1 == IF base = "mb" THEN Binary("mul", v0, Scalar(2, "i")) ELSE v0
           v2 == Transpose(v1, p1)
           v3 == CASE mid = "bcast" -> Binary("add", v2, vv) [] mid = "scalar" -> Binary("mul", v2, Scalar(2, "i")) [] OTHER -> Unary("abs", v2)
           v4 == Transpose(v3, p2)
           v5 == Transpose(v1, q)
           v6 == Binary("add", v4, v5)
           ew(op, a, b, sc) == [a |-> "Elemwise", op |-> op, x |-> a, y |-> b, scalar |-> sc, skind |-> IF b = 0 THEN "i" ELSE "none", swap |-> FALSE]
           a == n + 2 + k
       IN MultiPush(<<SrcAct(vshape, "i", 1), ew("add", x, 0, 1)>>
                    \o (IF base = "mb" THEN <<[a |-> "MapPlain", x |-> n + 2]>> ELSE <<>>)
                    \o <<[a |-> "Transpose", x |-> a, perm |-> p1],
                         CASE mid = "bcast" -> ew("add", a + 1, n + 1, 0) [] mid = "scalar" -> ew("mul", a + 1, 0, 2)
                           [] OTHER -> [a |-> "Unary", op |-> "abs", x |-> a + 1],
                         [a |-> "Transpose", x |-> a + 2, perm |-> p2],
                         [a |-> "Transpose", x |-> a, perm |-> q],
                         ew("add", a + 3, a + 4, 0)>>,
                    <<vv, v0>> \o (IF base = "mb" THEN <<v1>> ELSE <<>>) \o <<v2, v3, v4, v5, v6>>)

\* "Share": a base x (a random array in the directed corpora) combined with an intermediate w that has a second consumer,
\* so that w is fused into a group of its own and the group of x has to be rebuilt around it (C23: rebuilding the group
\* must not re-instantiate x as another realization; C02 / C06 for other bases):
\*   a = a from_array source of x's shape;  w = (a + 1) * 2;  c = max(w) | sum(w) | flip(w)
\*   z = (x + w * k) fin c     or    (w * k + x) fin c           fin in {sub, mul}
ShareAct ==
  /\ Allowed("Share") /\ CanStep
  /\ \E x \in Pick(LET cand == {h \in Live : Rank(env[h]) >= 1 /\ env[h].kind \in {"i", "f"}}
                        rnd == {h \in cand : prog[h].a = "Random"}
                    IN IF rnd # {} THEN rnd ELSE cand) :          \* a random base if the program has one
     \E k \in Pick({3, 14}) : \E second \in Pick({"max", "sum", "flip"}) : \E swp \in Pick({TRUE, FALSE}) : \E fin \in Pick({"sub", "mul"}) :
       LET n == Len(env)
           sh == env[x].shape
           allax == 1..Len(sh)
           a == MkSrc(sh, "i", 1)
           w1 == Binary("add", a, Scalar(1, "i"))
           w == Binary("mul", w1, Scalar(2, "i"))
           c == IF second = "flip" THEN Flip(w, 1) ELSE Reduce(second, w, allax, FALSE)
           t == Binary("mul", w, Scalar(k, "i"))
           u == IF swp THEN Binary("add", t, env[x]) ELSE Binary("add", env[x], t)
           z == Binary(fin, u, c)
           ew(op, p, q, sc) == [a |-> "Elemwise", op |-> op, x |-> p, y |-> q, scalar |-> sc, skind |-> IF q = 0 THEN "i" ELSE "none", swap |-> FALSE]
       IN MultiPush(<<SrcAct(sh, "i", 1), ew("add", n + 1, 0, 1), ew("mul", n + 2, 0, 2),
                      IF second = "flip" THEN [a |-> "Flip", x |-> n + 3, axis |-> 1]
                      ELSE [a |-> "Reduce", op |-> second, x |-> n + 3, axes |-> SetToSeqAsc(allax), keepdims |-> FALSE, split_every |-> 0, ok |-> TRUE],
                      ew("mul", n + 3, 0, k),
                      IF swp THEN ew("add", n + 5, x, 0) ELSE ew("add", x, n + 5, 0),
                      ew(fin, n + 6, n + 4, 0)>>,
                    <<a, w1, w, c, t, u, z>>)

\* map_blocks with a grid-independent function given in three ways: a function of the harness ("double": 2x), an importable
\* NumPy function ("npround": the identity on integers), and a WRAPPER that carries the NumPy function's module and qualified
\* name (functools.wraps) but computes 2 * round(x) ("borrowed": tokenizers that trust the advertised identity confuse the two)
MapPlainAct ==
  /\ Allowed("MapPlain") /\ CanStep
  /\ \E x \in Pick({h \in Live : Rank(env[h]) >= 1 /\ env[h].kind = "i"}) : \E fn \in Pick({"double", "npround", "borrowed"}) :
       Push([a |-> "MapPlain", x |-> x, fn |-> fn], IF fn = "npround" THEN env[x] ELSE Binary("mul", env[x], Scalar(2, "i")))

\* A node with TWO fusable dependencies over one source: h2 = f(x), h3 = g(x), h4 = h2 `op` h3 (the order in which a
\* fusion pass visits the dependencies must not leak into names / keys: C07; values: C02)
JoinAct ==
  /\ Allowed("Join") /\ CanStep
  /\ \E x \in Pick({h \in Live : Rank(env[h]) >= 1 /\ env[h].kind = "i"}) :
     \E f \in Pick({"add1", "mul2", "neg", "abs"}) : \E g \in Pick({"add1", "mul2", "neg", "sq"}) : \E op \in Pick({"add", "mul", "sub", "maximum"}) :
       LET n == Len(env)
           ew(o, a, b, sc) == [a |-> "Elemwise", op |-> o, x |-> a, y |-> b, scalar |-> sc, skind |-> IF b = 0 THEN "i" ELSE "none", swap |-> FALSE]
           un(o, a) == [a |-> "Unary", op |-> o, x |-> a]
           act(k, a) == CASE k = "add1" -> ew("add", a, 0, 1) [] k = "mul2" -> ew("mul", a, 0, 2) [] k = "neg" -> un("negative", a)
                          [] k = "abs" -> un("abs", a) [] OTHER -> un("square", a)
           val(k, A) == CASE k = "add1" -> Binary("add", A, Scalar(1, "i")) [] k = "mul2" -> Binary("mul", A, Scalar(2, "i"))
                          [] k = "neg" -> Unary("negative", A) [] k = "abs" -> Unary("abs", A) [] OTHER -> Unary("square", A)
           v2 == val(f, env[x]) v3 == val(g, env[x])
       IN /\ f # g
          /\ MultiPush(<<act(f, x), act(g, x), ew(op, n + 1, n + 2, 0)>>, <<v2, v3, Binary(op, v2, v3)>>)

\* einsum patterns whose parsing picks index letters itself: an ellipsis ("...j,j->...": product with a vector summed
\* over the last axis) and two contracted indices ("ijk,jk->i")
EinsumAct ==
  /\ Allowed("Einsum") /\ CanStep
  /\ \E x \in Pick({h \in Live : Rank(env[h]) \in {2, 3} /\ env[h].kind = "i"}) :
       \/ \E y \in Pick({h \in Live : Rank(env[h]) = 1 /\ env[h].kind = "i" /\ env[h].shape[1] = env[x].shape[Rank(env[x])]}) :
            Push([a |-> "Einsum", x |-> x, y |-> y, pattern |-> "...j,j->..."],
                 Reduce("sum", Binary("mul", env[x], env[y]), {Rank(env[x])}, FALSE))
       \/ /\ Rank(env[x]) = 3
          /\ \E y \in Pick({h \in Live : Rank(env[h]) = 2 /\ env[h].kind = "i" /\ env[h].shape = <<env[x].shape[2], env[x].shape[3]>>}) :
               Push([a |-> "Einsum", x |-> x, y |-> y, pattern |-> "ijk,jk->i"],
                    Reduce("sum", Binary("mul", env[x], env[y]), {2, 3}, FALSE))

\* TLC integers are 32-bit: products only of moderate values (deep simulated programs multiply repeatedly)
MagOK(A) == \A k \in 1..Len(A.data) : IF A.kind = "f" THEN Abs(A.data[k][1]) <= 1000 /\ Abs(A.data[k][2]) <= 1000
                                       ELSE IF A.kind = "i" THEN Abs(A.data[k]) <= 30000 ELSE TRUE
ScalarDom(kind) == IF kind = "f" THEN {<<1, 2>>, <<-3, 2>>, <<2, 1>>} ELSE {-1, 0, 2, 3}
ArithOps == {"add", "sub", "mul", "maximum", "minimum"}
OpOK(op, k1, k2) ==
  IF op \in ArithOps THEN ~(k1 = "b" /\ k2 = "b")           \* bool-bool arithmetic stays bool in NumPy: not modelled
  ELSE TRUE
Elemwise ==
  /\ Allowed("Elemwise") /\ CanStep
  /\ \E x \in Pick(Live) : \E op \in Pick(L(BinOps, {"add", "mul", "lt", "maximum"})) :
       \/ \E y \in Pick({h \in Live : BroadcastCompatible(env[x].shape, env[h].shape)
                                        /\ SmallEnough(BroadcastShapes(env[x].shape, env[h].shape))}) :
            /\ OpOK(op, env[x].kind, env[y].kind)
            /\ (op = "mul" => MagOK(env[x]) /\ MagOK(env[y]))
            /\ Push([a |-> "Elemwise", op |-> op, x |-> x, y |-> y, scalar |-> 0, skind |-> "none", swap |-> FALSE],
                    Binary(op, env[x], env[y]))
       \/ \E sk \in Pick(L(NumKinds, {"i"})) : \E sv \in Pick(L(ScalarDom(sk), {2})) : \E sw \in Pick(L({TRUE, FALSE}, {op = "lt"})) :
            /\ OpOK(op, env[x].kind, sk)
            /\ (op = "mul" => MagOK(env[x]))
            /\ Push([a |-> "Elemwise", op |-> op, x |-> x, y |-> 0, scalar |-> sv, skind |-> sk, swap |-> sw],
                    IF sw THEN Binary(op, Scalar(sv, sk), env[x]) ELSE Binary(op, env[x], Scalar(sv, sk)))

UnaryAct ==
  /\ Allowed("Unary") /\ CanStep
  /\ \E x \in Pick(Live) : \E op \in Pick(L(UnOps, {"negative", "abs"})) :
       /\ (op # "logical_not" => env[x].kind # "b" \/ TRUE)
       /\ (op \in {"negative", "square"} => env[x].kind # "b")
       \* TLC integers are 32-bit: squares only of moderate values (deep simulated programs square repeatedly)
       /\ (op = "square" => MagOK(env[x]))
       /\ Push([a |-> "Unary", op |-> op, x |-> x], Unary(op, env[x]))

AsTypeAct ==
  /\ Allowed("AsType") /\ CanStep
  /\ \E x \in Pick(Live) : \E k \in Pick(L(Kinds, {"f", "b"})) :
       \* float -> int truncation is not modelled
       /\ ~(env[x].kind = "f" /\ k = "i")
       /\ Push([a |-> "AsType", x |-> x, kind |-> k], AsType(env[x], k))

TransposeAct ==
  /\ Allowed("Transpose") /\ CanStep
  /\ \E x \in Pick({h \in Live : Rank(env[h]) >= 1}) : \E p \in Pick(Perms(Rank(env[x]))) :
       Push([a |-> "Transpose", x |-> x, perm |-> p], Transpose(env[x], p))

ReshapeAct ==
  /\ Allowed("Reshape") /\ CanStep
  /\ \E x \in Pick(Live) :
       \E s \in Pick({f \in Factorizations(Size(env[x].shape)) : ValidFactorization(f, Size(env[x].shape))}) :
         Push([a |-> "Reshape", x |-> x, shape |-> s], Reshape(env[x], s))

ExpandSqueeze ==
  /\ Allowed("ExpandSqueeze") /\ CanStep
  /\ \E x \in Pick(Live) :
       \/ /\ Rank(env[x]) <= 3
          /\ \E p \in Pick(1..(Rank(env[x]) + 1)) :
               Push([a |-> "ExpandDims", x |-> x, pos |-> p], ExpandDims(env[x], p))
       \/ \E ax \in Pick({b \in 1..Rank(env[x]) : env[x].shape[b] = 1}) :
            Push([a |-> "Squeeze", x |-> x, axis |-> ax], SqueezeAxis(env[x], ax))

FlipRoll ==
  /\ Allowed("FlipRoll") /\ CanStep
  /\ \E x \in Pick({h \in Live : Rank(env[h]) >= 1}) : \E ax \in Pick(1..Rank(env[x])) :
       \/ Push([a |-> "Flip", x |-> x, axis |-> ax], Flip(env[x], ax))
       \/ \E sh \in Pick(L((-env[x].shape[ax] - 1)..(env[x].shape[ax] + 1), {1, -2})) :
            Push([a |-> "Roll", x |-> x, axis |-> ax, shift |-> sh],
                 IF env[x].shape[ax] = 0 THEN env[x] ELSE Roll(env[x], sh, ax))

ConcatOK(s1, s2, ax) == Len(s1) = Len(s2) /\ \A b \in 1..Len(s1) : b = ax \/ s1[b] = s2[b]
ConcatStack ==
  /\ Allowed("Concat") /\ CanStep
  /\ \E x \in Pick({h \in Live : Rank(env[h]) >= 1}) : \E ax \in Pick(1..Rank(env[x])) :
       \/ \E y \in Pick({h \in Live : ConcatOK(env[x].shape, env[h].shape, ax)}) :
            \/ /\ SmallEnough([b \in 1..Rank(env[x]) |-> IF b = ax THEN env[x].shape[b] + env[y].shape[b] ELSE env[x].shape[b]])
               /\ Push([a |-> "Concat", xs |-> <<x, y>>, axis |-> ax], Concat(<<env[x], env[y]>>, ax))
            \/ \E z \in Pick({h \in Live : ~Lean /\ ConcatOK(env[x].shape, env[h].shape, ax)}) :
                 /\ SmallEnough([b \in 1..Rank(env[x]) |-> IF b = ax THEN env[x].shape[b] + env[y].shape[b] + env[z].shape[b]
                                                          ELSE env[x].shape[b]])
                 /\ Push([a |-> "Concat", xs |-> <<x, y, z>>, axis |-> ax], Concat(<<env[x], env[y], env[z]>>, ax))
       \/ \E y \in Pick({h \in Live : env[h].shape = env[x].shape}) : \E pos \in Pick(1..(Rank(env[x]) + 1)) :
            /\ Rank(env[x]) <= 3 /\ Size(env[x].shape) <= 18
            /\ Push([a |-> "Stack", xs |-> <<x, y>>, pos |-> pos], Stack(<<env[x], env[y]>>, pos))

RechunkAct ==
  /\ Allowed("Rechunk") /\ CanStep
  /\ \E x \in Pick({h \in Live : Rank(env[h]) >= 1 /\ Rank(env[h]) <= 3}) :
       \E g \in PickGrid(env[x].shape) :
         Push([a |-> "Rechunk", x |-> x, chunks |-> g], env[x])

\* rechunk of a collection with unknown sizes onto a target that is itself unknown along those axes (what
\* `y.rechunk(z.chunks)` passes for two data-dependent selections): one unknown block, one block more than the collection
\* has, or the same number.  Values never change; a target whose block count differs cannot be honoured without the sizes,
\* so the only conforming outcomes are "refused" or the unchanged values (C28).  The replayer builds the target from the
\* collection's own chunks (known axes keep theirs).
RechunkNanAct ==
  /\ Allowed("RechunkNan") /\ CanStep
  /\ \E x \in Pick({h \in Live : Rank(env[h]) >= 1 /\ Rank(env[h]) <= 2}) : \E m \in Pick({"one", "more", "same"}) :
       Push([a |-> "RechunkNan", x |-> x, mode |-> m], env[x])

RedOpOK(op, A) ==
  /\ (op = "prod" => Size(A.shape) <= 12 /\ \A k \in 1..Len(A.data) : IF A.kind = "f" THEN Abs(A.data[k][1]) <= 5 ELSE Abs(A.data[k]) <= 3)
  /\ (op \in {"nansum", "nanmin", "nanmax", "nanmean", "nanargmin", "nanargmax"} => A.kind = "f")
  /\ (op \in {"mean", "var", "nanmean"} => Size(A.shape) <= 24)
  /\ (op = "ptp" => A.kind # "b")
ReduceAct ==
  /\ Allowed("Reduce") /\ CanStep
  /\ \E x \in Pick({h \in Live : Rank(env[h]) >= 1}) : \E op \in Pick(L(RedOps \ {"argmin", "argmax", "nanargmin", "nanargmax"}, {"sum", "max", "mean", "any"})) :
       \E axes \in Pick(AxisSubsets(Rank(env[x]))) : \E kd \in Pick(L({TRUE, FALSE}, {op = "sum" /\ Cardinality(axes) = 1})) :
         \E se \in Pick(L({0, 2, 3} \cup (IF Rank(env[x]) = 2 THEN {23} ELSE {}), {IF op \in {"sum", "mean"} THEN 2 ELSE 0})) :
         /\ RedOpOK(op, env[x])
         /\ (op \in {"count_nonzero", "ptp"} => ~kd /\ se = 0)       \* the public functions take neither keyword
         /\ Push([a |-> "Reduce", op |-> op, x |-> x, axes |-> SetToSeqAsc(axes), keepdims |-> kd, split_every |-> se,
                  ok |-> ReduceOK(op, env[x], axes)],
                 IF ReduceOK(op, env[x], axes) THEN Reduce(op, env[x], axes, kd) ELSE Err)

ArgReduce ==
  /\ Allowed("ArgReduce") /\ CanStep
  /\ \E x \in Pick({h \in Live : Rank(env[h]) >= 1}) : \E op \in Pick(L({"argmin", "argmax", "nanargmin", "nanargmax"}, {"argmax"})) : \E se \in Pick(L({0, 2, 3}, {2})) :
       \/ \E ax \in Pick(1..Rank(env[x])) : \E kd \in Pick(L({TRUE, FALSE}, {FALSE})) :
            /\ (op \in {"nanargmin", "nanargmax"} => env[x].kind = "f")
            /\ Push([a |-> "Reduce", op |-> op, x |-> x, axes |-> <<ax>>, keepdims |-> kd, split_every |-> se,
                     ok |-> ReduceOK(op, env[x], {ax})],
                    IF ReduceOK(op, env[x], {ax}) THEN Reduce(op, env[x], {ax}, kd) ELSE Err)
       \/ LET flatok == Size(env[x].shape) > 0 /\ (op \in {"nanargmin", "nanargmax"} => \E j \in 1..Len(env[x].data) : ~VIsNaN(env[x].data[j], env[x].kind))
          IN /\ (op \in {"nanargmin", "nanargmax"} => env[x].kind = "f")
             /\ Push([a |-> "ArgFlat", op |-> op, x |-> x, split_every |-> se, ok |-> flatok], IF flatok THEN ArgFlat(op, env[x]) ELSE Err)

CumulativeAct ==
  /\ Allowed("Cumulative") /\ CanStep
  /\ \E x \in Pick({h \in Live : Rank(env[h]) >= 1}) : \E ax \in Pick(1..Rank(env[x])) :
       \E op \in Pick(L({"cumsum", "cumprod"}, {"cumsum"})) : \E m \in Pick({"sequential", "blelloch"}) :
         /\ (op = "cumprod" => RedOpOK("prod", env[x]))
         /\ Push([a |-> "Cumulative", op |-> op, x |-> x, axis |-> ax, method |-> m], Cumulative(op, env[x], ax))

DiffAct ==
  /\ Allowed("Diff") /\ CanStep
  /\ \E x \in Pick({h \in Live : Rank(env[h]) >= 1 /\ env[h].kind # "b"}) : \E ax \in Pick(1..Rank(env[x])) :
       Push([a |-> "Diff", x |-> x, axis |-> ax], Diff(env[x], ax))

WhereAct ==
  /\ Allowed("Where") /\ CanStep
  /\ \E c \in Pick(Live) :
       \E x \in Pick({h \in Live : BroadcastCompatible(env[c].shape, env[h].shape)}) :
         \E y \in Pick({h \in Live : /\ BroadcastCompatible(BroadcastShapes(env[c].shape, env[x].shape), env[h].shape)}) :
           /\ SmallEnough(BroadcastShapes(BroadcastShapes(env[c].shape, env[x].shape), env[y].shape))
           /\ ~(env[x].kind = "b" /\ env[y].kind # "b") /\ ~(env[y].kind = "b" /\ env[x].kind # "b")
           /\ Push([a |-> "Where", c |-> c, x |-> x, y |-> y], Where(env[c], env[x], env[y]))

TakeLists(n) == IF n = 0 THEN {<<>>} ELSE {<<p>> : p \in (-n)..(n - 1)} \cup {<<p, q>> : p \in (-n)..(n - 1), q \in (-n)..(n - 1)}
                                          \cup {<<p, q, s>> : p \in 0..(n - 1), q \in (-n)..(n - 1), s \in 0..(n - 1)}
TakeAct ==
  /\ Allowed("Take") /\ CanStep
  /\ \E x \in Pick({h \in Live : Rank(env[h]) >= 1}) : \E ax \in Pick(1..Rank(env[x])) :
       \E lst \in Pick(L(TakeLists(env[x].shape[ax]),
                          IF env[x].shape[ax] = 0 THEN {<<>>} ELSE {<<env[x].shape[ax] - 1, 0>>, <<0, -1, 0>>})) :
         Push([a |-> "Take", x |-> x, axis |-> ax, list |-> lst],
              Take(env[x], [j \in 1..Len(lst) |-> PosInt(lst[j], env[x].shape[ax])], ax))

BroadcastAct ==
  /\ Allowed("BroadcastTo") /\ CanStep
  /\ \E x \in Pick({h \in Live : Rank(env[h]) <= 2}) : \E lead \in Pick(L({<<>>, <<1>>, <<2>>, <<3>>}, {<<>>, <<2>>})) :
       \* every size-1 axis may be stretched (bound once: RandomElement must not be re-evaluated)
       \E stretch \in Pick([1..Rank(env[x]) -> {1, 3}]) :
         LET target == lead \o [b \in 1..Rank(env[x]) |-> IF env[x].shape[b] = 1 THEN stretch[b] ELSE env[x].shape[b]]
         IN /\ SmallEnough(target)
            /\ Push([a |-> "BroadcastTo", x |-> x, shape |-> target], BroadcastTo(env[x], target))

WindowAct ==
  /\ Allowed("Window") /\ CanStep
  /\ \E x \in Pick({h \in Live : Rank(env[h]) >= 1 /\ Rank(env[h]) <= 2}) : \E ax \in Pick(1..Rank(env[x])) :
       \E w \in Pick(L(1..Max2(env[x].shape[ax], 1), {2, env[x].shape[ax]})) :
         /\ w <= env[x].shape[ax] /\ w >= 1
         /\ SmallEnough([b \in 1..(Rank(env[x]) + 1) |-> IF b = Rank(env[x]) + 1 THEN w
                                                        ELSE IF b = ax THEN env[x].shape[b] - w + 1 ELSE env[x].shape[b]])
         /\ Push([a |-> "SlidingWindow", x |-> x, axis |-> ax, window |-> w], SlidingWindow(env[x], w, ax))

\* sliding-window reduction in one step (the pattern the optimizer substitutes a native kernel for)
WindowReduce ==
  /\ Allowed("WindowReduce") /\ CanStep
  /\ \E x \in Pick({h \in Live : Rank(env[h]) >= 1 /\ Rank(env[h]) <= 2}) : \E ax \in Pick(1..Rank(env[x])) :
       \E w \in Pick(L(1..Max2(env[x].shape[ax], 1), {2, 3})) :
         \E op \in Pick(L({"sum", "min", "max", "mean", "prod", "any", "all", "var"}, {"sum", "max"})) :
         /\ w <= env[x].shape[ax]
         /\ RedOpOK(op, env[x])
         /\ Push([a |-> "WindowReduce", x |-> x, axis |-> ax, window |-> w, op |-> op],
                 Reduce(op, SlidingWindow(env[x], w, ax), {Rank(env[x]) + 1}, FALSE))

DotAct ==
  /\ Allowed("Dot") /\ CanStep
  /\ \E x \in Pick({h \in Live : Rank(env[h]) \in {1, 2}}) :
       \E y \in Pick({h \in Live : Rank(env[h]) \in {1, 2} /\ env[h].shape[1] = env[x].shape[Rank(env[x])]}) :
         /\ env[x].shape[Rank(env[x])] <= 6
         /\ ~(env[x].kind = "b" /\ env[y].kind = "b")
         /\ \A k \in 1..Len(env[x].data) : IF env[x].kind = "f" THEN Abs(env[x].data[k][1]) <= 60 ELSE Abs(env[x].data[k]) <= 40
         /\ \A k \in 1..Len(env[y].data) : IF env[y].kind = "f" THEN Abs(env[y].data[k][1]) <= 60 ELSE Abs(env[y].data[k]) <= 40
         /\ Push([a |-> "Dot", x |-> x, y |-> y], Dot(env[x], env[y]))

PadRepeat ==
  /\ Allowed("PadRepeat") /\ CanStep
  /\ \E x \in Pick({h \in Live : Rank(env[h]) >= 1 /\ Rank(env[h]) <= 3}) : \E ax \in Pick(1..Rank(env[x])) :
       \/ \E bf \in Pick(L(0..2, {1})) : \E af \in Pick(L(0..2, {0, 2})) :
            \E mode \in Pick(L({"constant", "edge", "reflect", "wrap"}, {"constant", "reflect"})) :
            /\ (mode \in {"edge", "wrap"} => env[x].shape[ax] >= 1)
            /\ (mode = "reflect" => env[x].shape[ax] > Max2(bf, af))
            /\ SmallEnough([b \in 1..Rank(env[x]) |-> IF b = ax THEN env[x].shape[b] + bf + af ELSE env[x].shape[b]])
            /\ Push([a |-> "Pad", x |-> x, axis |-> ax, before |-> bf, after |-> af, mode |-> mode],
                    PadAxis(env[x], ax, bf, af, mode))
       \* a callable mode (np.pad's contract: the callable edits each 1-D vector IN PLACE, once per axis): it doubles the
       \* data part of its vector and writes 7 into the pads, so after the passes over all r axes the data is scaled by
       \* 2^r and the pads of axis ax (written in pass ax, doubled by the later passes) hold 7 * 2^(r - ax)
       \/ /\ Rank(env[x]) <= 3 /\ env[x].kind = "i"
          /\ \E bf \in Pick({0, 1, 2}) : \E af \in Pick({0, 2}) :
               LET A == env[x] r == Rank(env[x])
                   P == PadAxis(Arr(A.shape, [k \in 1..Len(A.data) |-> (2 ^ r) * A.data[k]], "i"), ax, bf, af, "constant")
                   M == PadAxis(Arr(A.shape, [k \in 1..Len(A.data) |-> 1], "i"), ax, bf, af, "constant") IN
               /\ SmallEnough(P.shape)
               /\ Push([a |-> "Pad", x |-> x, axis |-> ax, before |-> bf, after |-> af, mode |-> "udf"],
                       Arr(P.shape, [k \in 1..Len(P.data) |-> IF M.data[k] = 1 THEN P.data[k] ELSE 7 * (2 ^ (r - ax))], "i"))
       \/ \E reps \in Pick(L(1..3, {2})) : \E kind \in Pick({"Repeat", "Tile"}) :
            /\ SmallEnough([b \in 1..Rank(env[x]) |-> IF b = ax THEN env[x].shape[b] * reps ELSE env[x].shape[b]])
            /\ Push([a |-> kind, x |-> x, axis |-> ax, reps |-> reps],
                    IF kind = "Repeat" THEN Repeat(env[x], reps, ax) ELSE Tile1(env[x], reps, ax))

TopKAct ==
  /\ Allowed("TopK") /\ CanStep
  /\ \E x \in Pick({h \in Live : Rank(env[h]) >= 1 /\ env[h].shape[Rank(env[h])] >= 1 /\ env[h].kind # "b"}) :
       \E kk \in Pick(L({-3, -2, -1, 1, 2, 3}, {2, -1})) :
         /\ \A j \in 1..Len(env[x].data) : ~VIsNaN(env[x].data[j], env[x].kind)
         /\ Abs(kk) <= env[x].shape[Rank(env[x])]
         /\ Push([a |-> "TopK", x |-> x, k |-> kk], TopK(env[x], kk))


(***************************************************************************)
(* Rechunk by specification (C14): the value never changes; the chunks are *)
(* what normalizing the specification gives (validated from the recorded   *)
(* layouts by Planner.RechunkSpecVerdict, not predicted here).             *)
(***************************************************************************)
AxisSpecs(n) == {[k |-> "int", v |-> v] : v \in L(1..(n + 1), {2, n + 1})}
                \cup {[k |-> "full"], [k |-> "keep"], [k |-> "auto"]}
RechunkSpecAct ==
  /\ Allowed("RechunkSpec") /\ CanStep
  /\ \E x \in Pick({h \in Live : Rank(env[h]) >= 1 /\ Rank(env[h]) <= 3 /\ \A a \in 1..Rank(env[h]) : env[h].shape[a] >= 1}) :
       \E form \in Pick({"tuple", "dict", "scalar"}) : \E bal \in Pick({FALSE, TRUE}) :
         LET r == Rank(env[x]) IN
         \/ /\ form = "scalar"
            /\ \E sp \in Pick(UNION {AxisSpecs(env[x].shape[a]) : a \in 1..r} \ {[k |-> "keep"]}) :
                 /\ (bal => sp.k = "int")
                 /\ Push([a |-> "RechunkSpec", x |-> x, form |-> form, balance |-> bal, spec |-> [a \in 1..r |-> sp]], env[x])
         \/ /\ form \in {"tuple", "dict"}
            /\ \E sp \in Pick({q \in [1..r -> UNION {AxisSpecs(env[x].shape[a]) : a \in 1..r}] :
                                  \A a \in 1..r : q[a] \in AxisSpecs(env[x].shape[a])}) :
                 /\ (bal => \A a \in 1..r : sp[a].k \in {"int", "keep"})
                 /\ (Lean => Cardinality({a \in 1..r : sp[a].k # "keep"}) <= 2)
                 /\ Push([a |-> "RechunkSpec", x |-> x, form |-> form, balance |-> bal, spec |-> sp], env[x])

(***************************************************************************)
(* map_blocks with a function that uses block_info / block_id (C20): the   *)
(* block function adds, to every element, its global position along `axis` *)
(* computed from the array-location it was told, so a wrong block_info     *)
(* changes the values.  Denotation: A + GlobalIndex(axis) (kind "i"/"f").  *)
(***************************************************************************)
AddGlobalIndex(A, ax) ==
  LET k == IF A.kind = "b" THEN "i" ELSE A.kind
  IN Build(A.shape, k, LAMBDA o : VAdd(ToKind(At(A, o), A.kind, k), IF k = "f" THEN Q(o[ax]) ELSE o[ax], k))
MapBlocksAct ==
  /\ Allowed("MapBlocks") /\ CanStep
  /\ \E x \in Pick({h \in Live : Rank(env[h]) >= 1 /\ Rank(env[h]) <= 3}) : \E ax \in Pick(1..Rank(env[x])) :
       \E use \in Pick({"block_info", "block_id", "both"}) :
         Push([a |-> "MapBlocks", x |-> x, axis |-> ax, use |-> use], AddGlobalIndex(env[x], ax))

\* map_blocks over TWO inputs of different rank with drop_axis and block_info (C20): f(a, b) sums a over the dropped axis
\* and adds b (dropped axis 1: b is aligned with the kept axis) or b's total (dropped axis 2: b lies along the dropped
\* axis and is handed over whole).  The function records block_info of BOTH inputs.
MapBlocks2Act ==
  /\ Allowed("MapBlocks2") /\ CanStep
  /\ \E x \in Pick({h \in Live : Rank(env[h]) = 2 /\ env[h].kind = "i"}) :
       \E y \in Pick({h \in Live : Rank(env[h]) = 1 /\ env[h].kind = "i" /\ env[h].shape[1] = env[x].shape[2]}) :
         \E dax \in Pick({1, 2}) :
           /\ env[x].shape[1] >= 1 /\ env[x].shape[2] >= 1
           /\ Push([a |-> "MapBlocks2", x |-> x, y |-> y, drop |-> dax],
                   IF dax = 1 THEN Binary("add", Reduce("sum", env[x], {1}, FALSE), env[y])
                   ELSE Binary("add", Reduce("sum", env[x], {2}, FALSE), Reduce("sum", env[y], {1}, FALSE)))

\* A per-block function whose result depends on WHICH elements share a block (it subtracts the block's first element):
\* legal under map_blocks, whose contract is "the function runs on the blocks `.chunks` advertises".  The chunk grid is the
\* replayer's choice, so the specification cannot give the value: the denotation is a PLACEHOLDER (shape and kind only) and
\* the replayer computes the reference from the advertised grid (C02: every form must agree with the raw form).
BlockFirstAct ==
  /\ Allowed("BlockFirst") /\ CanStep
  /\ \E x \in Pick({h \in Live : Rank(env[h]) >= 1 /\ Rank(env[h]) <= 2 /\ env[h].kind = "i"}) :
       \/ Push([a |-> "BlockFirst", x |-> x, mode |-> "first", placeholder |-> TRUE], env[x])
       \* map_blocks(f, chunks=...) with an explicit per-block size declaration frozen against the advertised grid:
       \* f keeps the first half of its block.  The result's SHAPE depends on the grid too: the action is terminal.
       \/ /\ Rank(env[x]) = 1
          /\ Push([a |-> "BlockFirst", x |-> x, mode |-> "half", placeholder |-> TRUE, terminal |-> TRUE], env[x])

(***************************************************************************)
(* In-place operations (C11)                                               *)
(***************************************************************************)
SetValDom(kind) == IF kind = "f" THEN {<<-7, 2>>} ELSE IF kind = "b" THEN {1} ELSE {-5}
SetItemAct ==
  /\ Allowed("SetItem") /\ CanStep
  /\ \E x \in Pick({h \in Live : Rank(env[h]) >= 1 /\ Rank(env[h]) <= 3 /\ Size(env[h].shape) >= 1}) :
       \E idx \in IdxTuples(env[x].shape) :
         /\ IndexOK(env[x].shape, idx) /\ \A j \in 1..Len(idx) : ~IsNoneIx(idx[j])
         /\ \/ \E sv \in Pick(SetValDom(env[x].kind)) :      \* scalar value
                 InPlace([a |-> "SetItem", x |-> x, idx |-> idx, vkind |-> "scalar", scalar |-> sv, y |-> 0],
                         x, SetItem(env[x], idx, Scalar(sv, env[x].kind)))
            \/ \E y \in Pick({h \in Live \ {x} :              \* value: another collection that broadcasts to the region
                                  /\ env[h].kind = env[x].kind
                                  /\ LET reg == BasicIndex(env[x], idx).shape IN
                                       /\ BroadcastCompatible(env[h].shape, reg)
                                       /\ BroadcastShapes(env[h].shape, reg) = reg}) :
                 InPlace([a |-> "SetItem", x |-> x, idx |-> idx, vkind |-> "array", scalar |-> 0, y |-> y],
                         x, SetItem(env[x], idx, env[y]))

\* x[mask] = scalar with a boolean mask derived from x itself (x > t) or from another bool collection
MaskSetAct ==
  /\ Allowed("MaskSet") /\ CanStep
  /\ \E x \in Pick({h \in Live : Rank(env[h]) >= 1 /\ env[h].kind # "b" /\ Size(env[h].shape) >= 1}) :
       \E t \in Pick({1, 4}) : \E sv \in Pick(SetValDom(env[x].kind)) : \E lib \in Pick({"np", "da"}) :
         LET M == Binary("lt", Scalar(IF env[x].kind = "f" THEN Q(t) ELSE t, env[x].kind), env[x])      \* t < x
         IN /\ (lib = "np" => Rank(env[x]) = 1)      \* N-d NumPy masks are refused at assignment time (a decline)
            /\ InPlace([a |-> "MaskSet", x |-> x, thresh |-> t, scalar |-> sv, masklib |-> lib], x,
                    Where(M, Scalar(sv, env[x].kind), env[x]))

\* ufunc with out=x:  add(x, y, out=x)  (y a scalar or another collection of the same shape and kind)
OutUfuncAct ==
  /\ Allowed("OutUfunc") /\ CanStep
  /\ \E x \in Pick({h \in Live : Rank(env[h]) >= 1 /\ env[h].kind # "b"}) : \E op \in Pick({"add", "mul"}) :
       \/ InPlace([a |-> "OutUfunc", x |-> x, op |-> op, y |-> 0, scalar |-> 2], x,
                  Binary(op, env[x], Scalar(IF env[x].kind = "f" THEN Q(2) ELSE 2, env[x].kind)))
       \/ \E y \in Pick({h \in Live \ {x} : env[h].shape = env[x].shape /\ env[h].kind = env[x].kind}) :
            InPlace([a |-> "OutUfunc", x |-> x, op |-> op, y |-> y, scalar |-> 0], x, Binary(op, env[x], env[y]))
       \* np.op(s, 3, where=(s > t), out=x): x keeps its old values where the mask is false (the out operand is an INPUT)
       \/ \E s \in Pick({h \in Live \ {x} : env[h].shape = env[x].shape /\ env[h].kind = env[x].kind}) : \E t \in Pick({0, 2}) :
            LET k == env[x].kind
                M == Binary("lt", Scalar(IF k = "f" THEN Q(t) ELSE t, k), env[s])
                R == Binary(op, env[s], Scalar(IF k = "f" THEN Q(3) ELSE 3, k))
            IN InPlace([a |-> "OutUfunc", x |-> x, op |-> op, y |-> s, scalar |-> 3, where |-> t], x, Where(M, R, env[x]))

(***************************************************************************)
(* Unknown chunk sizes (C28): boolean-mask selection gives a 1-D array of  *)
(* data-dependent length; compute_chunk_sizes() resolves the sizes in      *)
(* place and never changes the value.                                      *)
(***************************************************************************)
MaskSelectAct ==
  /\ Allowed("MaskSelect") /\ CanStep
  /\ \E x \in Pick({h \in Live : Rank(env[h]) >= 1 /\ Rank(env[h]) <= 2 /\ env[h].kind # "b"}) :
       \E t \in Pick({0, 2, 5, 100}) :
         LET M == Binary("lt", Scalar(IF env[x].kind = "f" THEN Q(t) ELSE t, env[x].kind), env[x])
         IN Push([a |-> "MaskSelect", x |-> x, thresh |-> t], MaskSelect(env[x], M))
UnknownAct ==
  /\ Allowed("Unknown") /\ CanStep
  /\ \E x \in Pick({h \in Live : Rank(env[h]) >= 1 /\ Rank(env[h]) <= 3}) : \E op \in Pick({"flatnonzero", "argwhere", "unique"}) :
       /\ (op = "unique" => \A k \in 1..Len(env[x].data) : ~VIsNaN(env[x].data[k], env[x].kind))
       /\ Push([a |-> "Unknown", x |-> x, op |-> op],
               CASE op = "flatnonzero" -> FlatNonzero(env[x]) [] op = "argwhere" -> ArgWhere(env[x]) [] OTHER -> UniqueSorted(env[x]))
ComputeChunkSizesAct ==
  /\ Allowed("ComputeChunkSizes") /\ CanStep
  /\ \E x \in Pick({h \in Live : \E j \in 1..Len(prog) : prog[j].out = h /\ prog[j].a \in {"MaskSelect", "Unknown"}}) :
       InPlace([a |-> "ComputeChunkSizes", x |-> x], x, env[x])

(***************************************************************************)
(* Advanced indexing (C12): boolean masks along an axis (NumPy or dask),   *)
(* dask integer arrays, pointwise .vindex, Ellipsis.  ok = FALSE: NumPy    *)
(* raises (out of bounds) and so must dask_array.                          *)
(***************************************************************************)
MaskPatterns(n) == IF n <= 4 THEN [1..n -> {0, 1}]
                   ELSE {[j \in 1..n |-> 0], [j \in 1..n |-> 1], [j \in 1..n |-> j % 2], [j \in 1..n |-> IF j = 1 \/ j = n THEN 1 ELSE 0],
                         [j \in 1..n |-> IF j % 3 = 0 THEN 1 ELSE 0]}
IntLists(n) == {<<n - 1, 0>>, <<0, -1, 0>>, <<-n>>, <<n>>, <<1, -n - 1>>} \cup {<<p>> : p \in 0..(n - 1)}
ListOK(lst, n) == \A j \in 1..Len(lst) : -n <= lst[j] /\ lst[j] < n
AdvIndexAct ==
  /\ Allowed("AdvIndex") /\ CanStep
  /\ \E x \in Pick({h \in Live : Rank(env[h]) >= 1 /\ Rank(env[h]) <= 3 /\ \A a \in 1..Rank(env[h]) : env[h].shape[a] >= 1}) :
       LET A == env[x] r == Rank(env[x]) IN
       \/ \E ax \in Pick(1..r) : \E m \in Pick(MaskPatterns(A.shape[ax])) : \E lib \in Pick({"np", "da"}) :
            Push([a |-> "AdvIndex", mode |-> "mask", x |-> x, axis |-> ax, mask |-> m, lib |-> lib, ok |-> TRUE],
                 MaskAxis(A, Arr(<<Len(m)>>, m, "b"), ax))
       \/ \E ax \in Pick(1..r) : \E lst \in Pick(IntLists(A.shape[ax])) : \E lib \in Pick({"np", "da"}) :
            Push([a |-> "AdvIndex", mode |-> "intarr", x |-> x, axis |-> ax, list |-> lst, lib |-> lib, ok |-> ListOK(lst, A.shape[ax])],
                 IF ListOK(lst, A.shape[ax]) THEN Take(A, [j \in 1..Len(lst) |-> PosInt(lst[j], A.shape[ax])], ax) ELSE Err)
       \/ /\ r >= 2
          /\ \E axes \in Pick({S \in SUBSET (1..r) : Cardinality(S) >= 2 /\ (Cardinality(S) = r \/ S = {1, r})}) :
               \E npts \in Pick({1, 2, 3}) : \E sel \in Pick({"first", "last-neg", "mixed", "oob"}) :
                 LET lists == [a \in 1..r |-> IF a \notin axes THEN <<>>
                                               ELSE [j \in 1..npts |-> CASE sel = "first" -> 0
                                                                          [] sel = "last-neg" -> -1
                                                                          [] sel = "mixed" -> ((j + a) % A.shape[a])
                                                                          [] OTHER -> IF j = npts THEN A.shape[a] ELSE 0]]
                     ok == \A a \in axes : ListOK(lists[a], A.shape[a])
                 IN Push([a |-> "AdvIndex", mode |-> "vindex", x |-> x, lists |-> lists, ok |-> ok], IF ok THEN VIndex(A, lists) ELSE Err)
       \/ /\ r >= 2
          /\ \E e \in Pick({IntIx(0), IntIx(-1), SliceIx(1, None, None), SliceIx(None, None, -1), IntIx(A.shape[1] + A.shape[r])}) :
               \E where \in Pick({"front", "back"}) :
                 LET full == [a \in 1..r |-> SliceIx(None, None, None)]
                     idx == IF where = "back" THEN [full EXCEPT ![r] = e] ELSE [full EXCEPT ![1] = e]
                     ok == IndexOK(A.shape, idx)
                 IN Push([a |-> "AdvIndex", mode |-> "ellipsis", x |-> x, elem |-> e, where |-> where, ok |-> ok],
                         IF ok THEN BasicIndex(A, idx) ELSE Err)

\* map_overlap(f, depth, boundary) with the local stencil f of radius = depth (C19)
OverlapAct ==
  /\ Allowed("Overlap") /\ CanStep
  /\ \E x \in Pick({h \in Live : Rank(env[h]) >= 1 /\ Rank(env[h]) <= 2 /\ env[h].kind # "b"}) : \E ax \in Pick(1..Rank(env[x])) :
       \E r \in Pick({1, 2}) : \E mode \in Pick({"reflect", "periodic", "nearest", "constant", "none"}) :
         /\ env[x].shape[ax] >= r /\ env[x].shape[ax] >= 1
         /\ Push([a |-> "Overlap", x |-> x, axis |-> ax, depth |-> r, boundary |-> mode], Stencil(env[x], ax, r, mode))

DiagonalAct ==
  /\ Allowed("Diagonal") /\ CanStep
  /\ \E x \in Pick({h \in Live : Rank(env[h]) >= 2 /\ Rank(env[h]) <= 3}) :
       \E ax1 \in Pick(1..Rank(env[x])) : \E ax2 \in Pick(1..Rank(env[x])) : \E off \in Pick({0, 1, -1}) :
         /\ ax1 # ax2
         /\ Push([a |-> "Diagonal", x |-> x, axis1 |-> ax1, axis2 |-> ax2, offset |-> off], Diagonal(env[x], off, ax1, ax2))

\* stacking two arrays of DIFFERENT shapes is an error in NumPy (C28: also when the sizes are still unknown)
StackMismatchAct ==
  /\ Allowed("StackMismatch") /\ CanStep
  /\ \E x \in Pick({h \in Live : Rank(env[h]) = 1}) : \E y \in Pick({h \in Live : Rank(env[h]) = 1 /\ env[h].shape # env[x].shape}) :
       Push([a |-> "StackMismatch", xs |-> <<x, y>>, pos |-> 1, ok |-> FALSE], Err)

(***************************************************************************)
(* Random arrays (C06, C07, C23): the values are a REALIZATION the          *)
(* specification cannot predict; the handle's denotation is a placeholder  *)
(* (the replayer substitutes the first computed value of the base and      *)
(* judges every later collection against NumPy applied to it).             *)
(***************************************************************************)
RandomAct ==
  /\ Allowed("Random") /\ CanStep
  /\ \E gen \in Pick({"RandomState", "Generator"}) : \E seed \in Pick(L({7, 8}, {7})) :
       \E dist \in Pick(L({"randint", "poisson", "normal", "uniform", "random"}, {"randint", "normal"})) :
         \E sh \in Pick({<<6>>, <<3, 4>>}) : \E g \in Pick(LeanGrids(sh)) :
           Push([a |-> "Random", gen |-> gen, seed |-> seed, dist |-> dist, shape |-> sh, chunks |-> g, x |-> 0],
                Iota(sh, IF dist \in {"randint", "poisson"} THEN "i" ELSE "f"))

(***************************************************************************)
(* Entry points that return a collection (C05): the denotation is kept.    *)
(***************************************************************************)
PersistAct ==
  /\ Allowed("Persist") /\ CanStep
  /\ \E x \in Pick(Live) : \E e \in Pick({"x.persist", "dask.persist", "dask.optimize", "x.optimize"}) :
       Push([a |-> "Persist", x |-> x, entry |-> e], env[x])

Next ==
  \/ Start
  \/ RechunkSpecAct \/ MapBlocksAct \/ BlockFirstAct \/ IndexNone \/ DiamondAct \/ ShareAct \/ RechunkNanAct \/ MapBlocks2Act \/ JoinAct \/ EinsumAct \/ MapPlainAct \/ SetItemAct \/ MaskSetAct \/ OutUfuncAct \/ MaskSelectAct \/ UnknownAct \/ ComputeChunkSizesAct \/ RandomAct \/ AdvIndexAct \/ DiagonalAct \/ StackMismatchAct \/ OverlapAct \/ PersistAct
  \/ Index \/ Elemwise \/ UnaryAct \/ AsTypeAct \/ TransposeAct \/ ReshapeAct \/ ExpandSqueeze \/ FlipRoll
  \/ ConcatStack \/ RechunkAct \/ ReduceAct \/ ArgReduce \/ CumulativeAct \/ DiffAct \/ WhereAct \/ TakeAct
  \/ BroadcastAct \/ WindowAct \/ WindowReduce \/ DotAct \/ PadRepeat \/ TopKAct

Spec == Init /\ [][Next]_vars

(***************************************************************************)
(* Emission (always TRUE).  One JSON object per program.                   *)
(***************************************************************************)
Emit ==
  (NActs >= 1 /\ (EmitAll \/ NActs = MaxLen)) =>
     PrintT(ToJson([prog |-> prog, env |-> vals]))

\* Type / sanity invariant of the specification itself: every denotation is
\* well-formed (data length = product of shape)
WellFormed ==
  /\ \A h \in 1..Len(env) : IsErr(env[h]) \/ Len(env[h].data) = Size(env[h].shape)
  /\ Len(vals) = Len(prog)
=============================================================================
