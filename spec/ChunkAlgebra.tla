-------------------------- MODULE ChunkAlgebra --------------------------
(***************************************************************************)
(* L0 definitions: chunkings of an axis, Python slice semantics, block     *)
(* plans, crosswalks.  No variables.  Everything here is the *meaning*     *)
(* the planner helpers of dask_array must implement.                       *)
(***************************************************************************)
EXTENDS Integers, Sequences, FiniteSets, SequencesExt, FiniteSetsExt, Functions, Folds

None == 99          \* sentinel standing for Python's None inside slices
Unk  == -7          \* sentinel standing for an unknown (nan) chunk size

Min2(a, b) == IF a < b THEN a ELSE b
Max2(a, b) == IF a > b THEN a ELSE b
Abs(a)     == IF a < 0 THEN -a ELSE a

SumSeq(s)  == FoldSeq(LAMBDA x, acc : x + acc, 0, s)
ProdSeq(s) == FoldSeq(LAMBDA x, acc : x * acc, 1, s)
MaxSeq(s)  == FoldSeq(LAMBDA x, acc : Max2(x, acc), 0, s)
Prefix(s, k) == SubSeq(s, 1, k)
SumUpTo(s, k) == SumSeq(SubSeq(s, 1, k))          \* k in 0..Len(s)
CumSum(s)  == [k \in 1..Len(s) |-> SumUpTo(s, k)]
Flatten(ss) == FlattenSeq(ss)

\* floor / ceil division for positive divisors
FloorDiv(a, b) == a \div b                          \* TLA+ \div floors for b > 0
CeilDiv(a, b)  == -((-a) \div b)

(***************************************************************************)
(* Chunkings                                                               *)
(***************************************************************************)
RECURSIVE Compositions(_)
Compositions(n) ==
  IF n = 0 THEN {<<>>}
  ELSE UNION {{<<k>> \o c : c \in Compositions(n - k)} : k \in 1..n}

\* all chunkings of an axis of length n: positive sizes summing to n; the
\* zero-length axis has the single chunking <<0>>
Chunkings(n) == IF n = 0 THEN {<<0>>} ELSE Compositions(n)

IsChunking(c, n) ==
  /\ Len(c) >= 1
  /\ \A i \in 1..Len(c) : c[i] >= 0
  /\ SumSeq(c) = n
  /\ (n > 0 => \A i \in 1..Len(c) : c[i] > 0)

\* weaker: zero-sized chunks tolerated anywhere (what slicing / concatenate
\* legitimately produce)
IsLooseChunking(c, n) ==
  /\ Len(c) >= 1
  /\ \A i \in 1..Len(c) : c[i] >= 0
  /\ SumSeq(c) = n

Bounds(c) == {SumUpTo(c, i) : i \in 0..Len(c)}
Refines(a, b) == Bounds(b) \subseteq Bounds(a)      \* a only splits blocks of b
Offset(c, b) == SumUpTo(c, b - 1)                   \* first position of block b (1-based)
BlockOf(c, p) == CHOOSE b \in 1..Len(c) : Offset(c, b) <= p /\ p < Offset(c, b) + c[b]

\* N-d grids: a grid is a sequence of chunkings
IsGridOf(g, shape) == Len(g) = Len(shape) /\ \A a \in 1..Len(g) : IsChunking(g[a], shape[a])
MaxBlockElems(g) == ProdSeq([a \in 1..Len(g) |-> MaxSeq(g[a])])
NumBlocks(g) == ProdSeq([a \in 1..Len(g) |-> Len(g[a])])

(***************************************************************************)
(* Python slice semantics                                                  *)
(***************************************************************************)
\* a slice is a record [start, stop, step] with None for absent parts
Slice(a, b, s) == [start |-> a, stop |-> b, step |-> s]
StepOf(sl) == IF sl.step = None THEN 1 ELSE sl.step

\* CPython slice.indices(n): <<start, stop, step>> concrete
SliceIndices(sl, n) ==
  LET step  == StepOf(sl)
      lower == IF step < 0 THEN -1 ELSE 0
      upper == IF step < 0 THEN n - 1 ELSE n
      clamp(v) == IF v < 0 THEN Max2(v + n, lower) ELSE Min2(v, upper)
      start == IF sl.start = None THEN (IF step < 0 THEN upper ELSE lower) ELSE clamp(sl.start)
      stop  == IF sl.stop  = None THEN (IF step < 0 THEN lower ELSE upper) ELSE clamp(sl.stop)
  IN <<start, stop, step>>

RangeLen(a, b, s) ==
  IF s > 0 THEN (IF b > a THEN CeilDiv(b - a, s) ELSE 0)
           ELSE (IF a > b THEN CeilDiv(a - b, -s) ELSE 0)
RangeSeq(a, b, s) == [k \in 1..RangeLen(a, b, s) |-> a + (k - 1) * s]

\* positions of range(n) selected by the slice, in order
Sel(sl, n) == LET i == SliceIndices(sl, n) IN RangeSeq(i[1], i[2], i[3])

\* an index element: [k |-> "slice", start, stop, step] | [k |-> "int", i] | [k |-> "none"]
IsSliceIx(e) == e.k = "slice"
IsIntIx(e)   == e.k = "int"
IsNoneIx(e)  == e.k = "none"
IntInBounds(i, n) == -n <= i /\ i < n
PosInt(i, n) == IF i < 0 THEN i + n ELSE i

\* selection of a 1-D index element on an axis of length n (ints select one position)
SelIx(e, n) == IF IsIntIx(e) THEN <<PosInt(e.i, n)>> ELSE Sel(e, n)

\* applying selection sequences: positions q of the *selection p*
Compose(p, q) == [k \in 1..Len(q) |-> p[q[k] + 1]]

(***************************************************************************)
(* Per-block slice plans (what _slice_1d must return)                      *)
(***************************************************************************)
\* plan: sequence of <<block(0-based), index element>> as returned (dict order is
\* irrelevant: blocks are distinct).  The pieces, taken in ascending block
\* order for positive steps and descending for negative, concatenate to Sel.
PlanBlocks(plan) == {plan[j][1] : j \in 1..Len(plan)}
PlanAt(plan, b) == (CHOOSE j \in 1..Len(plan) : plan[j][1] = b)
SortedBlocks(plan) == SetToSortSeq(PlanBlocks(plan), LAMBDA x, y : x < y)

PiecePositions(c, b, e) ==          \* absolute positions selected inside block b (0-based b)
  LET loc == SelIx(e, c[b + 1]) IN [k \in 1..Len(loc) |-> Offset(c, b + 1) + loc[k]]

PlanPieces(plan, c, neg) ==
  LET sb == SortedBlocks(plan)
      ord == IF neg THEN Reverse(sb) ELSE sb
  IN [j \in 1..Len(ord) |-> PiecePositions(c, ord[j], plan[PlanAt(plan, ord[j])][2])]

\* verdict (name of first failing clause or "ok") for a slice plan
PlanVerdict(plan, c, e) ==
  LET n   == SumSeq(c)
      neg == IsSliceIx(e) /\ StepOf(e) < 0
  IN IF Cardinality(PlanBlocks(plan)) # Len(plan) THEN "duplicate-block"
     ELSE IF \E b \in PlanBlocks(plan) : b < 0 \/ b >= Len(c) THEN "block-out-of-range"
     ELSE IF \E j \in 1..Len(plan) :
               IsIntIx(plan[j][2]) /\ ~IntInBounds(plan[j][2].i, c[plan[j][1] + 1])
          THEN "int-outside-block"
     ELSE IF Flatten(PlanPieces(plan, c, neg)) # SelIx(e, n) THEN "pieces-differ-from-selection"
     ELSE "ok"

\* piece lengths in output order (= the chunks the sliced axis must advertise)
PlanChunks(plan, c, neg) ==
  LET pp == PlanPieces(plan, c, neg) IN [j \in 1..Len(pp) |-> Len(pp[j])]

\* The chunks a slice selection induces on an axis chunked c, blocks that
\* receive nothing dropped (a single 0 when nothing is selected)
InducedChunks(c, e) ==
  LET n   == SumSeq(c)
      s   == Sel(e, n)
      neg == StepOf(e) < 0
      cnt(b) == Cardinality({k \in 1..Len(s) : Offset(c, b) <= s[k] /\ s[k] < Offset(c, b) + c[b]})
      blocks == IF neg THEN Reverse([b \in 1..Len(c) |-> b]) ELSE [b \in 1..Len(c) |-> b]
      all == [j \in 1..Len(blocks) |-> cnt(blocks[j])]
      nz  == SelectSeq(all, LAMBDA v : v > 0)
  IN IF nz = <<>> THEN <<0>> ELSE nz

(***************************************************************************)
(* Crosswalk old -> new chunking of one axis                               *)
(***************************************************************************)
\* For new block j (1-based) the list of <<old block (0-based), lo, hi>> pieces
\* (half-open, relative to the old block) that tile it, in order.
Crosswalk(old, new) ==
  [j \in 1..Len(new) |->
     LET lo == Offset(new, j)
         hi == lo + new[j]
         touching == {b \in 1..Len(old) :
                        \/ (Max2(lo, Offset(old, b)) < Min2(hi, Offset(old, b) + old[b]))
                        \/ (new[j] = 0 /\ old[b] = 0 /\ Offset(old, b) = lo)}
         sb == SetToSortSeq(touching, LAMBDA x, y : x < y)
     IN [k \in 1..Len(sb) |->
           <<sb[k] - 1,
             Max2(lo, Offset(old, sb[k])) - Offset(old, sb[k]),
             Min2(hi, Offset(old, sb[k]) + old[sb[k]]) - Offset(old, sb[k])>>]]

\* relation form: pieces (any list) tile new block j exactly, contiguous, in bounds
CrosswalkVerdict(old, new, cw) ==
  IF Len(cw) # Len(new) THEN "wrong-number-of-new-blocks"
  ELSE IF \E j \in 1..Len(cw) : \E k \in 1..Len(cw[j]) :
            LET p == cw[j][k] IN
              p[1] < 0 \/ p[1] >= Len(old) \/ p[2] < 0 \/ p[3] > old[p[1] + 1] \/ p[2] > p[3]
       THEN "piece-out-of-bounds"
  ELSE IF \E j \in 1..Len(cw) :
            LET abs(k) == <<Offset(old, cw[j][k][1] + 1) + cw[j][k][2],
                            Offset(old, cw[j][k][1] + 1) + cw[j][k][3]>>
                nonempty == SelectSeq([k \in 1..Len(cw[j]) |-> abs(k)], LAMBDA r : r[1] < r[2])
            IN IF new[j] = 0 THEN nonempty # <<>>
               ELSE \/ nonempty = <<>>
                    \/ nonempty[1][1] # Offset(new, j)
                    \/ nonempty[Len(nonempty)][2] # Offset(new, j) + new[j]
                    \/ \E k \in 1..(Len(nonempty) - 1) : nonempty[k][2] # nonempty[k + 1][1]
       THEN "pieces-do-not-tile-new-block"
  ELSE "ok"
(***************************************************************************)
(* Shared small domains                                                    *)
(***************************************************************************)
OptInts(lo, hi) == {None} \cup (lo..hi)
Steps(smax) == {None} \cup {s \in (-smax)..smax : s # 0}
SliceIx(a, b, s) == [k |-> "slice", start |-> a, stop |-> b, step |-> s]
IntIx(i) == [k |-> "int", i |-> i]
GridsOf(shape) ==
  CASE Len(shape) = 0 -> {<<>>}
    [] Len(shape) = 1 -> {<<a>> : a \in Chunkings(shape[1])}
    [] Len(shape) = 2 -> {<<a, b>> : a \in Chunkings(shape[1]), b \in Chunkings(shape[2])}
    [] Len(shape) = 3 -> {<<a, b, c>> : a \in Chunkings(shape[1]), b \in Chunkings(shape[2]), c \in Chunkings(shape[3])}
    [] Len(shape) = 4 -> {<<a, b, c, d>> : a \in Chunkings(shape[1]), b \in Chunkings(shape[2]), c \in Chunkings(shape[3]), d \in Chunkings(shape[4])}
ShapeOfGrid(g) == [a \in 1..Len(g) |-> SumSeq(g[a])]
=============================================================================
