------------------------------ MODULE NdArray ------------------------------
(***************************************************************************)
(* L0: "NumPy in TLA+".  The denotation of the array operations that the   *)
(* program-level specification (ArrayProgram.tla) composes.                *)
(*                                                                         *)
(* An array is a record [shape, data, kind]:                               *)
(*   shape : sequence of naturals                                          *)
(*   data  : row-major (C order) sequence of values, Len = product(shape)  *)
(*   kind  : "b" (bool, values 0/1), "i" (integers), "f" (inexact: values  *)
(*           are exact rationals <<num, den>>, den > 0; den = 0 is NaN)    *)
(* Indices are 0-based sequences.  Axes are 1-based positions in shape.    *)
(***************************************************************************)
EXTENDS ChunkAlgebra

(***************************************************************************)
(* Rationals                                                               *)
(***************************************************************************)
RECURSIVE GCD(_, _)
GCD(a, b) == IF b = 0 THEN a ELSE GCD(b, a % b)
QNaN == <<0, 0>>
QIsNaN(x) == x[2] = 0
QNorm(x) == IF x[2] = 0 THEN QNaN
            ELSE LET s == IF x[2] < 0 THEN -1 ELSE 1
                     g == GCD(Abs(x[1]), Abs(x[2]))
                 IN IF x[1] = 0 THEN <<0, 1>> ELSE <<(s * x[1]) \div g, (s * x[2]) \div g>>
Q(i) == <<i, 1>>
QAdd(x, y) == IF QIsNaN(x) \/ QIsNaN(y) THEN QNaN ELSE QNorm(<<x[1] * y[2] + y[1] * x[2], x[2] * y[2]>>)
QNeg(x) == IF QIsNaN(x) THEN QNaN ELSE <<-x[1], x[2]>>
QSub(x, y) == QAdd(x, QNeg(y))
QMul(x, y) == IF QIsNaN(x) \/ QIsNaN(y) THEN QNaN ELSE QNorm(<<x[1] * y[1], x[2] * y[2]>>)
QDivInt(x, n) == IF QIsNaN(x) \/ n = 0 THEN QNaN ELSE QNorm(<<x[1], x[2] * n>>)
QLt(x, y) == ~QIsNaN(x) /\ ~QIsNaN(y) /\ x[1] * y[2] < y[1] * x[2]
QEq(x, y) == ~QIsNaN(x) /\ ~QIsNaN(y) /\ x[1] * y[2] = y[1] * x[2]
QAbs(x) == IF QIsNaN(x) THEN QNaN ELSE <<Abs(x[1]), x[2]>>

(***************************************************************************)
(* Values by kind                                                          *)
(***************************************************************************)
Kinds == {"b", "i", "f"}
PromoteKind(k1, k2) == IF k1 = "f" \/ k2 = "f" THEN "f" ELSE IF k1 = "i" \/ k2 = "i" THEN "i" ELSE "b"
ToKind(v, from, to) == IF from = to THEN v
                       ELSE IF to = "f" THEN Q(v)            \* b,i -> f
                       ELSE IF to = "i" THEN v               \* b -> i
                       ELSE IF from = "f" THEN (IF QIsNaN(v) \/ v[1] # 0 THEN 1 ELSE 0)   \* f -> b (nan is truthy)
                       ELSE (IF v # 0 THEN 1 ELSE 0)         \* i -> b
VZero(k) == IF k = "f" THEN Q(0) ELSE 0
VOne(k) == IF k = "f" THEN Q(1) ELSE 1
VIsNaN(v, k) == k = "f" /\ QIsNaN(v)
VLt(x, y, k) == IF k = "f" THEN QLt(x, y) ELSE x < y
VEq(x, y, k) == IF k = "f" THEN QEq(x, y) ELSE x = y
VAdd(x, y, k) == IF k = "f" THEN QAdd(x, y) ELSE x + y
VSub(x, y, k) == IF k = "f" THEN QSub(x, y) ELSE x - y
VMul(x, y, k) == IF k = "f" THEN QMul(x, y) ELSE x * y
VNeg(x, k) == IF k = "f" THEN QNeg(x) ELSE -x
VAbs(x, k) == IF k = "f" THEN QAbs(x) ELSE Abs(x)
\* numpy maximum/minimum propagate NaN
VMax(x, y, k) == IF VIsNaN(x, k) THEN x ELSE IF VIsNaN(y, k) THEN y ELSE IF VLt(x, y, k) THEN y ELSE x
VMin(x, y, k) == IF VIsNaN(x, k) THEN x ELSE IF VIsNaN(y, k) THEN y ELSE IF VLt(y, x, k) THEN y ELSE x
VTruth(x, k) == IF k = "f" THEN (QIsNaN(x) \/ x[1] # 0) ELSE x # 0
B(b) == IF b THEN 1 ELSE 0

(***************************************************************************)
(* Shapes and indices                                                      *)
(***************************************************************************)
Size(shape) == ProdSeq(shape)
Rank(A) == Len(A.shape)
StridesOf(shape) == [a \in 1..Len(shape) |-> ProdSeq(SubSeq(shape, a + 1, Len(shape)))]
UnravelS(k, shape, st) == [a \in 1..Len(shape) |-> IF shape[a] = 0 THEN 0 ELSE (k \div st[a]) % shape[a]]
RavelS(ix, st) == SumSeq([a \in 1..Len(ix) |-> ix[a] * st[a]])
Arr(shape, data, kind) == [shape |-> shape, data |-> data, kind |-> kind]

\* Build(shape, kind, f): f maps a 0-based multi-index to a value
Build(shape, kind, f(_)) ==
  LET st == StridesOf(shape)
  IN Arr(shape, [k \in 1..Size(shape) |-> f(UnravelS(k - 1, shape, st))], kind)

At(A, ix) == A.data[RavelS(ix, StridesOf(A.shape)) + 1]
\* faster when strides are precomputed
AtS(A, st, ix) == A.data[RavelS(ix, st) + 1]

Iota(shape, kind) == Arr(shape, [k \in 1..Size(shape) |-> IF kind = "f" THEN Q(k - 1) ELSE k - 1], kind)

(***************************************************************************)
(* Structural operations (never look at values)                            *)
(***************************************************************************)
\* perm[a] = input axis that becomes output axis a (numpy.transpose convention)
IsPerm(p, r) == Len(p) = r /\ {p[a] : a \in 1..r} = 1..r
InvPerm(p) == [b \in 1..Len(p) |-> CHOOSE a \in 1..Len(p) : p[a] = b]
Transpose(A, perm) ==
  LET st == StridesOf(A.shape)
      inv == InvPerm(perm)
  IN Build([a \in 1..Len(perm) |-> A.shape[perm[a]]], A.kind,
           LAMBDA o : AtS(A, st, [b \in 1..Len(perm) |-> o[inv[b]]]))

Reshape(A, shape) == Arr(shape, A.data, A.kind)          \* requires Size(shape) = Size(A.shape)
ExpandDims(A, pos) == Reshape(A, InsertAt(A.shape, pos, 1))   \* pos: 1..rank+1
SqueezeAxis(A, ax) == Reshape(A, RemoveAt(A.shape, ax))       \* requires shape[ax] = 1
Ravel(A) == Reshape(A, <<Size(A.shape)>>)

Flip(A, ax) ==
  LET st == StridesOf(A.shape)
  IN Build(A.shape, A.kind, LAMBDA o : AtS(A, st, [b \in 1..Len(o) |-> IF b = ax THEN A.shape[ax] - 1 - o[b] ELSE o[b]]))

Roll(A, shift, ax) ==
  LET st == StridesOf(A.shape)
      n == A.shape[ax]
  IN Build(A.shape, A.kind, LAMBDA o : AtS(A, st, [b \in 1..Len(o) |-> IF b = ax THEN (o[b] - shift) % n ELSE o[b]]))

\* Basic indexing.  idx: one element per input axis, with "none" elements interleaved.
\* Returns the array; IndexOK says whether every integer is in bounds.
IdxInAxes(idx) == SelectSeq(idx, LAMBDA e : ~IsNoneIx(e))
IndexOK(shape, idx) ==
  /\ Len(IdxInAxes(idx)) = Len(shape)
  /\ LET ia == IdxInAxes(idx) IN \A a \in 1..Len(shape) : IsIntIx(ia[a]) => IntInBounds(ia[a].i, shape[a])
BasicIndex(A, idx) ==
  LET st == StridesOf(A.shape)
      \* input axis of idx position j (for non-none positions)
      inax(j) == Cardinality({q \in 1..j : ~IsNoneIx(idx[q])})
      outpos == SelectSeq([j \in 1..Len(idx) |-> j], LAMBDA j : ~IsIntIx(idx[j]))   \* idx positions producing an output axis
      sels == [j \in 1..Len(idx) |-> IF IsNoneIx(idx[j]) THEN <<0>> ELSE SelIx(idx[j], A.shape[inax(j)])]
      oshape == [a \in 1..Len(outpos) |-> IF IsNoneIx(idx[outpos[a]]) THEN 1 ELSE Len(sels[outpos[a]])]
      \* for each input axis b, the idx position holding it
      posof == [b \in 1..Len(A.shape) |-> CHOOSE j \in 1..Len(idx) : ~IsNoneIx(idx[j]) /\ inax(j) = b]
      outaxof(j) == CHOOSE a \in 1..Len(outpos) : outpos[a] = j
  IN Build(oshape, A.kind,
           LAMBDA o : AtS(A, st, [b \in 1..Len(A.shape) |->
                                     IF IsIntIx(idx[posof[b]]) THEN sels[posof[b]][1]
                                     ELSE sels[posof[b]][o[outaxof(posof[b])] + 1]]))

\* take along an axis with a list of (already non-negative) positions
Take(A, positions, ax) ==
  LET st == StridesOf(A.shape)
  IN Build([b \in 1..Len(A.shape) |-> IF b = ax THEN Len(positions) ELSE A.shape[b]], A.kind,
           LAMBDA o : AtS(A, st, [b \in 1..Len(o) |-> IF b = ax THEN positions[o[b] + 1] ELSE o[b]]))

\* boolean mask over the whole array (mask.shape = A.shape): 1-D result in C order
MaskSelect(A, M) ==
  LET keep == SelectSeq([k \in 1..Len(A.data) |-> k], LAMBDA k : M.data[k] # 0)
  IN Arr(<<Len(keep)>>, [j \in 1..Len(keep) |-> A.data[keep[j]]], A.kind)

\* data-dependent selections (results have unknown chunk sizes in dask_array)
TruePositions(A) == SelectSeq([k \in 1..Len(A.data) |-> k], LAMBDA k : VTruth(A.data[k], A.kind))
FlatNonzero(A) == LET keep == TruePositions(A) IN Arr(<<Len(keep)>>, [j \in 1..Len(keep) |-> keep[j] - 1], "i")
ArgWhere(A) ==
  LET keep == TruePositions(A)
      r == Len(A.shape)
      st == StridesOf(A.shape)
  IN Arr(<<Len(keep), r>>, [m \in 1..(Len(keep) * r) |-> UnravelS(keep[((m - 1) \div r) + 1] - 1, A.shape, st)[((m - 1) % r) + 1]], "i")
UniqueSorted(A) ==      \* requires no NaN
  LET vals == {A.data[k] : k \in 1..Len(A.data)}
      srt == SetToSortSeq(vals, LAMBDA x, y : VLt(x, y, A.kind))
  IN Arr(<<Len(srt)>>, srt, A.kind)

\* pointwise (vectorized) indexing: lists[a] is a sequence of positions for an indexed axis a, <<>> for an axis kept whole;
\* all non-empty lists have the same length L; the point axis comes first, then the kept axes in order
VIndex(A, lists) ==
  LET r == Len(A.shape)
      st == StridesOf(A.shape)
      idxd == SelectSeq([a \in 1..r |-> a], LAMBDA a : lists[a] # <<>>)
      kept == SelectSeq([a \in 1..r |-> a], LAMBDA a : lists[a] = <<>>)
      npts == Len(lists[idxd[1]])
      oshape == <<npts>> \o [j \in 1..Len(kept) |-> A.shape[kept[j]]]
  IN Build(oshape, A.kind,
           LAMBDA o : AtS(A, st, [a \in 1..r |-> IF lists[a] # <<>> THEN PosInt(lists[a][o[1] + 1], A.shape[a])
                                                ELSE o[1 + (CHOOSE j \in 1..Len(kept) : kept[j] = a)]]))

\* numpy.diagonal(A, offset, axis1, axis2): the two axes are removed and the diagonal axis is appended last
Diagonal(A, off, ax1, ax2) ==
  LET r == Len(A.shape)
      st == StridesOf(A.shape)
      n1 == A.shape[ax1]
      n2 == A.shape[ax2]
      dl == IF off >= 0 THEN Max2(Min2(n1, n2 - off), 0) ELSE Max2(Min2(n1 + off, n2), 0)
      kept == SelectSeq([a \in 1..r |-> a], LAMBDA a : a # ax1 /\ a # ax2)
      oshape == [j \in 1..(Len(kept) + 1) |-> IF j <= Len(kept) THEN A.shape[kept[j]] ELSE dl]
  IN Build(oshape, A.kind,
           LAMBDA o : LET i == o[Len(kept) + 1] IN
                        AtS(A, st, [a \in 1..r |-> IF a = ax1 THEN (IF off >= 0 THEN i ELSE i - off)
                                                  ELSE IF a = ax2 THEN (IF off >= 0 THEN i + off ELSE i)
                                                  ELSE o[CHOOSE j \in 1..Len(kept) : kept[j] = a]]))

\* map_overlap with a local stencil of radius r along one axis:  out[i] = ext(i - r) + A[i] + ext(i + r), where ext reads
\* A inside the axis and follows the boundary rule outside ("nearest" and "none": the edge element; "reflect": mirrored
\* INCLUDING the edge (d c b a | a b c d); "periodic": wrapped; "constant": 0).  Requires r <= length of the axis.
Stencil(A, ax, r, mode) ==
  LET st == StridesOf(A.shape)
      n == A.shape[ax]
      k == A.kind
      at(o, p) == AtS(A, st, [b \in 1..Len(o) |-> IF b = ax THEN p ELSE o[b]])
      ext(o, p) == IF 0 <= p /\ p < n THEN at(o, p)
                   ELSE IF mode = "constant" THEN VZero(k)
                   ELSE IF mode = "periodic" THEN at(o, p % n)
                   ELSE IF mode = "reflect" THEN (IF p < 0 THEN at(o, -p - 1) ELSE at(o, 2 * n - p - 1))
                   ELSE (IF p < 0 THEN at(o, 0) ELSE at(o, n - 1))
  IN Build(A.shape, k, LAMBDA o : VAdd(VAdd(ext(o, o[ax] - r), at(o, o[ax]), k), ext(o, o[ax] + r), k))

\* 1-D boolean mask applied along one axis = take of the true positions
MaskAxis(A, M, ax) ==
  Take(A, SelectSeq([k \in 1..Len(M.data) |-> k - 1], LAMBDA p : M.data[p + 1] # 0), ax)

Concat(As, ax) ==          \* As: non-empty sequence of arrays equal off-axis; common kind by promotion
  LET kind == FoldLeft(LAMBDA acc, X : PromoteKind(acc, X.kind), "b", As)
      lens == [j \in 1..Len(As) |-> As[j].shape[ax]]
      total == SumSeq(lens)
      oshape == [b \in 1..Len(As[1].shape) |-> IF b = ax THEN total ELSE As[1].shape[b]]
      part(p) == CHOOSE j \in 1..Len(As) : SumUpTo(lens, j - 1) <= p /\ p < SumUpTo(lens, j)
  IN Build(oshape, kind,
           LAMBDA o : LET j == part(o[ax])
                      IN ToKind(At(As[j], [b \in 1..Len(o) |-> IF b = ax THEN o[b] - SumUpTo(lens, j - 1) ELSE o[b]]),
                                As[j].kind, kind))

Stack(As, pos) == Concat([j \in 1..Len(As) |-> ExpandDims(As[j], pos)], pos)

BroadcastShapes(s1, s2) ==
  LET r == Max2(Len(s1), Len(s2))
      d1(a) == IF a > r - Len(s1) THEN s1[a - (r - Len(s1))] ELSE 1
      d2(a) == IF a > r - Len(s2) THEN s2[a - (r - Len(s2))] ELSE 1
  IN [a \in 1..r |-> IF d1(a) = 1 THEN d2(a) ELSE d1(a)]
BroadcastCompatible(s1, s2) ==
  LET r == Max2(Len(s1), Len(s2))
      d1(a) == IF a > r - Len(s1) THEN s1[a - (r - Len(s1))] ELSE 1
      d2(a) == IF a > r - Len(s2) THEN s2[a - (r - Len(s2))] ELSE 1
  IN \A a \in 1..r : d1(a) = d2(a) \/ d1(a) = 1 \/ d2(a) = 1
\* read A at output index o of a broadcast to rank Len(o)
BAt(A, st, o) ==
  LET off == Len(o) - Len(A.shape)
  IN AtS(A, st, [b \in 1..Len(A.shape) |-> IF A.shape[b] = 1 THEN 0 ELSE o[b + off]])
BroadcastTo(A, shape) ==
  LET st == StridesOf(A.shape) IN Build(shape, A.kind, LAMBDA o : BAt(A, st, o))

Repeat(A, reps, ax) ==
  LET st == StridesOf(A.shape)
  IN Build([b \in 1..Len(A.shape) |-> IF b = ax THEN A.shape[b] * reps ELSE A.shape[b]], A.kind,
           LAMBDA o : AtS(A, st, [b \in 1..Len(o) |-> IF b = ax THEN o[b] \div reps ELSE o[b]]))
Tile1(A, reps, ax) ==
  LET st == StridesOf(A.shape)
  IN Build([b \in 1..Len(A.shape) |-> IF b = ax THEN A.shape[b] * reps ELSE A.shape[b]], A.kind,
           LAMBDA o : AtS(A, st, [b \in 1..Len(o) |-> IF b = ax THEN o[b] % A.shape[b] ELSE o[b]]))

\* pad one axis by (before, after); mode "constant" (value 0) | "edge" | "reflect" | "wrap"
PadAxis(A, ax, before, after, mode) ==
  LET st == StridesOf(A.shape)
      n == A.shape[ax]
      src(p) ==   \* p: position relative to the unpadded axis (may be <0 or >=n); -1 means constant
        IF 0 <= p /\ p < n THEN p
        ELSE IF mode = "constant" THEN -1
        ELSE IF mode = "edge" THEN (IF p < 0 THEN 0 ELSE n - 1)
        ELSE IF mode = "wrap" THEN p % n
        ELSE (IF p < 0 THEN -p ELSE 2 * (n - 1) - p)          \* reflect (requires pad < n)
  IN Build([b \in 1..Len(A.shape) |-> IF b = ax THEN n + before + after ELSE A.shape[b]], A.kind,
           LAMBDA o : LET p == src(o[ax] - before)
                      IN IF p = -1 THEN VZero(A.kind)
                         ELSE AtS(A, st, [b \in 1..Len(o) |-> IF b = ax THEN p ELSE o[b]]))

\* sliding_window_view along one axis: window axis appended last
SlidingWindow(A, w, ax) ==
  LET st == StridesOf(A.shape)
      r == Len(A.shape)
  IN Build([b \in 1..(r + 1) |-> IF b = r + 1 THEN w ELSE IF b = ax THEN A.shape[b] - w + 1 ELSE A.shape[b]], A.kind,
           LAMBDA o : AtS(A, st, [b \in 1..r |-> IF b = ax THEN o[b] + o[r + 1] ELSE o[b]]))

\* x[idx] = v  (basic index, v broadcast to the selected region's shape)
SetItem(A, idx, V) ==
  LET region == BasicIndex(Iota(A.shape, "i"), idx)       \* flat positions (0-based) selected, in region order
      kind == A.kind
      stv == StridesOf(V.shape)
      rst == StridesOf(region.shape)
      \* for flat position p of A: the (last) region slot that targets it, 0 if none
      slot(p) == LET hits == {k \in 1..Len(region.data) : region.data[k] = p}
                 IN IF hits = {} THEN 0 ELSE Max(hits)
  IN Arr(A.shape,
         [k \in 1..Len(A.data) |->
            LET s == slot(k - 1)
            IN IF s = 0 THEN A.data[k]
               ELSE ToKind(BAt(V, stv, UnravelS(s - 1, region.shape, rst)), V.kind, kind)],
         kind)

(***************************************************************************)
(* Elementwise                                                             *)
(***************************************************************************)
BinOps == {"add", "sub", "mul", "maximum", "minimum", "lt", "le", "eq", "ne", "logical_and", "logical_or"}
CmpOps == {"lt", "le", "eq", "ne"}
LogicOps == {"logical_and", "logical_or"}
BinKind(op, k1, k2) ==
  IF op \in CmpOps \cup LogicOps THEN "b" ELSE PromoteKind(k1, k2)
BinVal(op, x, y, k) ==      \* x, y already of kind k (the promoted kind)
  CASE op = "add" -> VAdd(x, y, k)
    [] op = "sub" -> VSub(x, y, k)
    [] op = "mul" -> VMul(x, y, k)
    [] op = "maximum" -> VMax(x, y, k)
    [] op = "minimum" -> VMin(x, y, k)
    [] op = "lt" -> B(VLt(x, y, k))
    [] op = "le" -> B(VLt(x, y, k) \/ VEq(x, y, k))
    [] op = "eq" -> B(VEq(x, y, k))
    [] op = "ne" -> B(~VEq(x, y, k))
    [] op = "logical_and" -> B(VTruth(x, k) /\ VTruth(y, k))
    [] op = "logical_or" -> B(VTruth(x, k) \/ VTruth(y, k))

Binary(op, X, Y) ==
  LET pk == PromoteKind(X.kind, Y.kind)
      stx == StridesOf(X.shape)
      sty == StridesOf(Y.shape)
  IN Build(BroadcastShapes(X.shape, Y.shape), BinKind(op, X.kind, Y.kind),
           LAMBDA o : BinVal(op, ToKind(BAt(X, stx, o), X.kind, pk), ToKind(BAt(Y, sty, o), Y.kind, pk), pk))

Scalar(v, kind) == Arr(<<>>, <<v>>, kind)

UnOps == {"negative", "abs", "logical_not", "square"}
UnKind(op, k) == IF op = "logical_not" THEN "b" ELSE k
Unary(op, X) ==
  Arr(X.shape,
      [k \in 1..Len(X.data) |->
         CASE op = "negative" -> VNeg(X.data[k], X.kind)
           [] op = "abs" -> VAbs(X.data[k], X.kind)
           [] op = "square" -> VMul(X.data[k], X.data[k], X.kind)
           [] op = "logical_not" -> B(~VTruth(X.data[k], X.kind))],
      UnKind(op, X.kind))

AsType(X, kind) == Arr(X.shape, [k \in 1..Len(X.data) |-> ToKind(X.data[k], X.kind, kind)], kind)

Where(C, X, Y) ==
  LET pk == PromoteKind(X.kind, Y.kind)
      stc == StridesOf(C.shape)
      stx == StridesOf(X.shape)
      sty == StridesOf(Y.shape)
  IN Build(BroadcastShapes(BroadcastShapes(C.shape, X.shape), Y.shape), pk,
           LAMBDA o : IF VTruth(BAt(C, stc, o), C.kind) THEN ToKind(BAt(X, stx, o), X.kind, pk)
                                                         ELSE ToKind(BAt(Y, sty, o), Y.kind, pk))

(***************************************************************************)
(* Reductions                                                              *)
(***************************************************************************)
\* The flat (reference) reduction of a sequence of values of kind k.
\* Result record [v, kind].  Empty input: identity where NumPy has one, "err" otherwise.
RedOps == {"sum", "prod", "min", "max", "any", "all", "mean", "var", "count_nonzero",
           "argmin", "argmax", "nansum", "nanmin", "nanmax", "nanmean", "ptp", "nanargmin", "nanargmax"}
RedKind(op, k) ==
  CASE op \in {"any", "all"} -> "b"
    [] op \in {"mean", "var", "nanmean"} -> "f"
    [] op \in {"count_nonzero", "argmin", "argmax", "nanargmin", "nanargmax"} -> "i"
    [] op \in {"sum", "prod", "nansum"} -> (IF k = "b" THEN "i" ELSE k)
    [] OTHER -> k
RedNeedsNonEmpty(op) == op \in {"min", "max", "argmin", "argmax", "nanmin", "nanmax", "ptp", "nanargmin", "nanargmax"}

NonNaN(vals, k) == IF k = "f" THEN SelectSeq(vals, LAMBDA v : ~QIsNaN(v)) ELSE vals
HasNaN(vals, k) == k = "f" /\ \E j \in 1..Len(vals) : QIsNaN(vals[j])
FirstNaN(vals) == CHOOSE j \in 1..Len(vals) : QIsNaN(vals[j]) /\ \A q \in 1..(j - 1) : ~QIsNaN(vals[q])
SeqSum(vals, k) == FoldLeft(LAMBDA acc, v : VAdd(acc, v, k), VZero(k), vals)
SeqProd(vals, k) == FoldLeft(LAMBDA acc, v : VMul(acc, v, k), VOne(k), vals)
SeqMin(vals, k) == FoldLeft(LAMBDA acc, v : VMin(acc, v, k), vals[1], vals)
SeqMax(vals, k) == FoldLeft(LAMBDA acc, v : VMax(acc, v, k), vals[1], vals)
\* first position (0-based) of the extreme value; NaN counts as extreme (numpy)
ArgExt(vals, k, wantmax) ==
  IF HasNaN(vals, k) THEN FirstNaN(vals) - 1
  ELSE LET best == IF wantmax THEN SeqMax(vals, k) ELSE SeqMin(vals, k)
       IN (CHOOSE j \in 1..Len(vals) : VEq(vals[j], best, k) /\ \A q \in 1..(j - 1) : ~VEq(vals[q], best, k)) - 1
SeqMean(vals, k) ==
  LET fv == [j \in 1..Len(vals) |-> ToKind(vals[j], k, "f")] IN QDivInt(SeqSum(fv, "f"), Len(vals))
SeqVar(vals, k) ==     \* population variance (ddof = 0)
  LET fv == [j \in 1..Len(vals) |-> ToKind(vals[j], k, "f")]
      m == QDivInt(SeqSum(fv, "f"), Len(vals))
      sq == [j \in 1..Len(vals) |-> QMul(QSub(fv[j], m), QSub(fv[j], m))]
  IN QDivInt(SeqSum(sq, "f"), Len(vals))

RedSeq(op, vals, k) ==
  LET sk == IF k = "b" THEN "i" ELSE k IN
  CASE op = "sum" -> SeqSum(vals, sk)
    [] op = "prod" -> SeqProd(vals, sk)
    [] op = "min" -> SeqMin(vals, k)
    [] op = "max" -> SeqMax(vals, k)
    [] op = "ptp" -> VSub(SeqMax(vals, k), SeqMin(vals, k), k)
    [] op = "any" -> B(\E j \in 1..Len(vals) : VTruth(vals[j], k))
    [] op = "all" -> B(\A j \in 1..Len(vals) : VTruth(vals[j], k))
    [] op = "count_nonzero" -> Cardinality({j \in 1..Len(vals) : VTruth(vals[j], k)})
    [] op = "mean" -> SeqMean(vals, k)
    [] op = "var" -> SeqVar(vals, k)
    [] op = "argmin" -> ArgExt(vals, k, FALSE)
    [] op = "argmax" -> ArgExt(vals, k, TRUE)
    \* NaN-ignoring arg reductions: first position of the extreme among the non-NaN values (an all-NaN lane is an error:
    \* see NanArgOK; -1 is never observed)
    [] op \in {"nanargmin", "nanargmax"} ->
         LET nn == NonNaN(vals, k) IN
         IF nn = <<>> THEN -1
         ELSE LET best == IF op = "nanargmax" THEN SeqMax(nn, k) ELSE SeqMin(nn, k)
              IN (CHOOSE j \in 1..Len(vals) : ~VIsNaN(vals[j], k) /\ VEq(vals[j], best, k)
                                                /\ \A q \in 1..(j - 1) : VIsNaN(vals[q], k) \/ ~VEq(vals[q], best, k)) - 1
    [] op = "nansum" -> SeqSum(NonNaN(vals, k), sk)
    [] op = "nanmean" -> IF NonNaN(vals, k) = <<>> THEN QNaN ELSE SeqMean(NonNaN(vals, k), k)
    [] op = "nanmin" -> IF NonNaN(vals, k) = <<>> THEN QNaN ELSE SeqMin(NonNaN(vals, k), k)
    [] op = "nanmax" -> IF NonNaN(vals, k) = <<>> THEN QNaN ELSE SeqMax(NonNaN(vals, k), k)

\* reduce over a set of axes (1-based), keepdims in {TRUE, FALSE}
Reduce(op, A, axes, keepdims) ==
  LET r == Len(A.shape)
      st == StridesOf(A.shape)
      kept == SelectSeq([b \in 1..r |-> b], LAMBDA b : b \notin axes)
      redax == SelectSeq([b \in 1..r |-> b], LAMBDA b : b \in axes)
      rshape == [j \in 1..Len(redax) |-> A.shape[redax[j]]]
      rst == StridesOf(rshape)
      oshape == IF keepdims THEN [b \in 1..r |-> IF b \in axes THEN 1 ELSE A.shape[b]]
                ELSE [j \in 1..Len(kept) |-> A.shape[kept[j]]]
      \* input index from (output index o, reduced multi-index q)
      inix(o, q) == [b \in 1..r |->
                       IF b \in axes THEN q[CHOOSE j \in 1..Len(redax) : redax[j] = b]
                       ELSE IF keepdims THEN o[b] ELSE o[CHOOSE j \in 1..Len(kept) : kept[j] = b]]
      vals(o) == [m \in 1..Size(rshape) |-> AtS(A, st, inix(o, UnravelS(m - 1, rshape, rst)))]
  IN Build(oshape, RedKind(op, A.kind), LAMBDA o : RedSeq(op, vals(o), A.kind))

\* NumPy raises "All-NaN slice encountered" for nanargmin / nanargmax when some lane holds only NaNs
IsNaNArr(A) == Arr(A.shape, [j \in 1..Len(A.data) |-> B(VIsNaN(A.data[j], A.kind))], "b")
NanArgOK(op, A, axes) ==
  op \notin {"nanargmin", "nanargmax"} \/ \A j \in 1..Len(Reduce("all", IsNaNArr(A), axes, FALSE).data) : Reduce("all", IsNaNArr(A), axes, FALSE).data[j] = 0
\* is the reduction defined (NumPy raises on empty min/max/arg*, and on all-NaN lanes for nanarg*)?
ReduceOK(op, A, axes) == ~(RedNeedsNonEmpty(op) /\ \E b \in axes : A.shape[b] = 0) /\ (Size(A.shape) = 0 \/ NanArgOK(op, A, axes))

\* arg reductions with axis=None operate on the flattened array
ArgFlat(op, A) == Arr(<<>>, <<RedSeq(op, A.data, A.kind)>>, "i")

Cumulative(op, A, ax) ==       \* op in {"cumsum", "cumprod"}
  LET st == StridesOf(A.shape)
      k == IF A.kind = "b" THEN "i" ELSE A.kind
      pref(o) == [m \in 1..(o[ax] + 1) |-> ToKind(AtS(A, st, [b \in 1..Len(o) |-> IF b = ax THEN m - 1 ELSE o[b]]), A.kind, k)]
  IN Build(A.shape, k, LAMBDA o : IF op = "cumsum" THEN SeqSum(pref(o), k) ELSE SeqProd(pref(o), k))

Diff(A, ax) ==
  LET st == StridesOf(A.shape)
      k == A.kind
  IN Build([b \in 1..Len(A.shape) |-> IF b = ax THEN Max2(A.shape[b] - 1, 0) ELSE A.shape[b]], k,
           LAMBDA o : VSub(AtS(A, st, [b \in 1..Len(o) |-> IF b = ax THEN o[b] + 1 ELSE o[b]]), AtS(A, st, o), k))

\* tensordot contracting the last axis of X with the first axis of Y (matmul / dot for ranks 1-2)
Dot(X, Y) ==
  LET pk == IF PromoteKind(X.kind, Y.kind) = "b" THEN "i" ELSE PromoteKind(X.kind, Y.kind)
      rx == Len(X.shape)
      ry == Len(Y.shape)
      n == X.shape[rx]
      stx == StridesOf(X.shape)
      sty == StridesOf(Y.shape)
      oshape == SubSeq(X.shape, 1, rx - 1) \o SubSeq(Y.shape, 2, ry)
  IN Build(oshape, pk,
           LAMBDA o : SeqSum([m \in 1..n |->
                               VMul(ToKind(AtS(X, stx, SubSeq(o, 1, rx - 1) \o <<m - 1>>), X.kind, pk),
                                    ToKind(AtS(Y, sty, <<m - 1>> \o SubSeq(o, rx, Len(o))), Y.kind, pk), pk)], pk))

\* the k largest (k > 0) / smallest (k < 0) along the last axis, sorted (dask topk)
RECURSIVE SortDesc(_, _)
SortDesc(vals, k) ==
  IF vals = <<>> THEN <<>>
  ELSE LET m == SeqMax(vals, k)
           j == CHOOSE q \in 1..Len(vals) : VEq(vals[q], m, k)
       IN <<vals[j]>> \o SortDesc(RemoveAt(vals, j), k)
TopK(A, kk) ==        \* along the last axis; requires no NaN
  LET r == Len(A.shape)
      st == StridesOf(A.shape)
      n == A.shape[r]
      take == Min2(Abs(kk), n)
      row(o) == [m \in 1..n |-> AtS(A, st, [b \in 1..r |-> IF b = r THEN m - 1 ELSE o[b]])]
      sorted(o) == IF kk > 0 THEN SortDesc(row(o), A.kind) ELSE Reverse(SortDesc(row(o), A.kind))
  IN Build([b \in 1..r |-> IF b = r THEN take ELSE A.shape[b]], A.kind, LAMBDA o : sorted(o)[o[r] + 1])
=============================================================================
