------------------------------ MODULE SourceIO ------------------------------
(***************************************************************************)
(* L1: the boundary between dask_array and what the user hands in          *)
(* (C24, C25, C29).                                                        *)
(*                                                                         *)
(* A source is an array-like of a given shape, read only through           *)
(* `source[index]`.  A target is an array-like written only through        *)
(* `target[region] = block`.  The life of a collection goes through the    *)
(* phases                                                                  *)
(*   constructing -> inspecting -> optimizing -> building -> executing     *)
(* (any number of times, in any order, except that "executing" is the only *)
(* phase in which data may flow).                                          *)
(*                                                                         *)
(*   Read(req)      enabled iff req is a basic index inside the source's   *)
(*                  bounds, and (req selects nothing or phase=executing)   *)
(*   UserCall(size) a user block function is called on a block of `size`   *)
(*                  elements: enabled iff size = 0 or phase = executing    *)
(*   Write(t, region, block) enabled iff phase = executing, the region is  *)
(*                  inside the target and has the block's shape            *)
(***************************************************************************)
EXTENDS NdArray

Phases == {"constructing", "inspecting", "optimizing", "building", "executing"}

\* ---- read requests: one element per source axis: [k: "slice", start, stop, step] | [k: "int", i] | [k: "other"]
ReqElemOK(e, n) ==
  \/ /\ e.k = "slice"
     /\ (e.start = None \/ (0 <= e.start /\ e.start <= n))
     /\ (e.stop = None \/ (0 <= e.stop /\ e.stop <= n))
     /\ (e.step = None \/ e.step >= 1)
  \/ /\ e.k = "int" /\ -n <= e.i /\ e.i < n
ReqNonEmpty(req, shape) ==
  \A a \in 1..Len(req) : req[a].k = "int" \/ (req[a].k = "slice" /\ Len(Sel(Slice(req[a].start, req[a].stop, req[a].step), shape[a])) > 0)
ReadVerdict(shape, ev) ==
  IF Len(ev.req) > Len(shape) THEN "read-request-has-too-many-axes"
  ELSE IF \E a \in 1..Len(ev.req) : ev.req[a].k = "other" THEN "read-request-is-not-a-basic-index"
  ELSE IF \E a \in 1..Len(ev.req) : ~ReqElemOK(ev.req[a], shape[a]) THEN "read-request-outside-the-source-bounds"
  ELSE IF ev.phase # "executing" /\ ReqNonEmpty(ev.req, shape) THEN "non-empty-read-outside-execution:" \o ev.phase
  ELSE "ok"
CallVerdict(ev) == IF ev.phase # "executing" /\ ev.size > 0 THEN "user-function-called-on-data-outside-execution:" \o ev.phase ELSE "ok"

\* ---- a recorded life of one collection over one source (C24, C29)
\* c.shape: source shape; c.ev: events [e: "read", req, phase] | [e: "call", size, phase];
\* c.expect / c.got: denotation and computed value (C24: the reads returned exactly the requested elements)
IOVerdict(c) ==
  LET bad == {j \in 1..Len(c.ev) :
                IF c.ev[j].e = "read" THEN ReadVerdict(c.shape, c.ev[j]) # "ok" ELSE CallVerdict(c.ev[j]) # "ok"}
      j0 == CHOOSE j \in bad : \A q \in bad : j <= q
  IN IF bad # {} THEN (IF c.ev[j0].e = "read" THEN ReadVerdict(c.shape, c.ev[j0]) ELSE CallVerdict(c.ev[j0]))
     ELSE IF c.got.kind = "raised" THEN "ok-computation-raised"
     ELSE IF (c.got.shape # c.expect.shape) \/ (c.got.data # c.expect.data /\ c.got.kind # "f") THEN "value-read-differs-from-numpy-indexing"
     ELSE "ok"

\* ---- the phase machine (model-checked with small constants)
CONSTANTS IOReqs, IOShape      \* candidate requests and a source shape for model checking
VARIABLES iophase, ioreads
iovars == <<iophase, ioreads>>
IOInit == iophase = "constructing" /\ ioreads = {}
Advance == \E p \in Phases : iophase' = p /\ UNCHANGED ioreads
Read(req) == /\ ReadVerdict(IOShape, [req |-> req, phase |-> iophase]) = "ok"
             /\ ioreads' = {<<iophase, req>>}          \* the last read (a history of all reads would only multiply states)
             /\ UNCHANGED iophase
IONext == Advance \/ \E req \in IOReqs : Read(req)
IOSpec == IOInit /\ [][IONext]_iovars
\* the property: data only flows while executing
DataOnlyWhenExecuting == \A r \in ioreads : r[1] # "executing" => ~ReqNonEmpty(r[2], IOShape)
ReadsInBounds == \A r \in ioreads : \A a \in 1..Len(r[2]) : ReqElemOK(r[2][a], IOShape[a])

(***************************************************************************)
(* store (C25): after storing sources into targets at regions, a target    *)
(* holds the source values on its region and its initial values elsewhere. *)
(* c.pairs: sequence of [src (value), before, after (target values),        *)
(* region (basic index into the target), computed (0/1)]                    *)
(***************************************************************************)
Stored(before, region, srcval) == SetItem(before, region, srcval)
StoreVerdict(c) ==
  LET bad == {j \in 1..Len(c.pairs) :
                LET p == c.pairs[j]
                    want == IF p.computed = 1 THEN Stored(p.before, p.region, p.src) ELSE p.before
                IN p.after.shape # want.shape \/ p.after.data # want.data}
  IN IF bad # {} THEN (IF c.pairs[CHOOSE j \in bad : TRUE].computed = 1 THEN "target-differs-from-source-written-into-region"
                       ELSE "target-written-before-compute")
     ELSE IF \E j \in 1..Len(c.pairs) : "readback" \in DOMAIN c.pairs[j] /\ c.pairs[j].readback.data # c.pairs[j].src.data
          THEN "stored-array-read-back-differs-from-source"
     ELSE "ok"
=============================================================================
