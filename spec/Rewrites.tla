------------------------------ MODULE Rewrites ------------------------------
(***************************************************************************)
(* L1: the optimizer's named rewrite rules over an abstract term store      *)
(* (C02), checked against the denotational semantics of NdArray.tla.        *)
(*                                                                         *)
(* A term is a record                                                      *)
(*   [op |-> "src"]                                  the source array       *)
(*   [op |-> "T",  perm, x]                          transpose              *)
(*   [op |-> "sl", idx, x]                           basic index            *)
(*   [op |-> "ew", f, c, x]                          x `f` scalar c          *)
(*   [op |-> "red", f, axes, keep, x]                reduction              *)
(*   [op |-> "rc", x]                                rechunk (identity on   *)
(*                                                   values)                *)
(* Denote(t) is its value (NdArray).  Each rule is a partial function on    *)
(* terms, written the way the implementation's `_accept_slice` /            *)
(* `_simplify_down` hooks compute it:                                       *)
(*   SliceThroughTranspose   sl(idx, T(p, x))  -> T(p', sl(idx', x))         *)
(*   SliceThroughElemwise    sl(idx, ew(f,c,x)) -> ew(f, c, sl(idx, x))      *)
(*   SliceThroughReduction   sl(idx, red(.., x)) -> red(.., sl(idx^, x))     *)
(*                           (indices only on kept axes, none on reduced)   *)
(*   SliceThroughRechunk     sl(idx, rc(x)) -> rc(sl(idx, x))                *)
(*   TransposeFuse           T(p, T(q, x)) -> T(q o p, x)                    *)
(*   TransposeThroughElemwise T(p, ew(f,c,x)) -> ew(f, c, T(p, x))           *)
(*   SliceFuse               sl(b, sl(a, x)) -> sl(a;b, x)  (unit steps)     *)
(* TLC checks, for EVERY term of depth <= 2 over the source and every       *)
(* enabled rule instance, Denote(rule(t)) = Denote(t): the rules as         *)
(* specified are sound on all small inputs.  A deliberately wrong variant   *)
(* (Mutant = "transpose-axis") maps the index with the inverse permutation  *)
(* and must be refuted.  The implementation is bound to these rules by      *)
(* C02's RewriteVerdict (every fired hook's before/after evaluated).        *)
(***************************************************************************)
EXTENDS NdArray, TLC

CONSTANTS RWShape, RWMutant          \* source shape; "none" | "transpose-axis" | "reduce-axis"
MCShape2 == <<3, 4>>
MCShape3 == <<2, 3, 2>>
Src == Iota(RWShape, "i")
Full == SliceIx(None, None, None)

RECURSIVE Denote(_)
Denote(t) ==
  CASE t.op = "src" -> Src
    [] t.op = "T" -> Transpose(Denote(t.x), t.perm)
    [] t.op = "sl" -> BasicIndex(Denote(t.x), t.idx)
    [] t.op = "ew" -> Binary(t.f, Denote(t.x), Scalar(t.c, "i"))
    [] t.op = "red" -> Reduce(t.f, Denote(t.x), t.axes, t.keep)
    [] t.op = "rc" -> Denote(t.x)

RECURSIVE ShapeOf(_)
ShapeOf(t) == Denote(t).shape

\* ---- index helpers: idx has one element per axis of its operand (no None), ints drop axes
KeptAxes(idx) == SelectSeq([a \in 1..Len(idx) |-> a], LAMBDA a : ~IsIntIx(idx[a]))

\* ---- the rules (return <<TRUE, term>> or <<FALSE, t>> when not applicable)
SliceThroughTranspose(t) ==
  IF t.op = "sl" /\ t.x.op = "T" THEN
    LET p == t.x.perm
        r == Len(p)
        \* output axis a of the transpose reads input axis p[a]: the index element for input axis b is the one at the
        \* output position a with p[a] = b
        inidx == [b \in 1..r |-> t.idx[IF RWMutant = "transpose-axis" THEN p[b] ELSE CHOOSE a \in 1..r : p[a] = b]]
        \* surviving output axes, renumbered: output axis a survives iff idx[a] is not an integer
        keptout == KeptAxes(t.idx)
        keptin == KeptAxes(inidx)
        newperm == [j \in 1..Len(keptout) |-> CHOOSE m \in 1..Len(keptin) : keptin[m] = p[keptout[j]]]
    IN <<TRUE, [op |-> "T", perm |-> newperm, x |-> [op |-> "sl", idx |-> inidx, x |-> t.x.x]]>>
  ELSE <<FALSE, t>>

SliceThroughElemwise(t) ==
  IF t.op = "sl" /\ t.x.op = "ew" THEN <<TRUE, [t.x EXCEPT !.x = [op |-> "sl", idx |-> t.idx, x |-> t.x.x]]>> ELSE <<FALSE, t>>

SliceThroughRechunk(t) ==
  IF t.op = "sl" /\ t.x.op = "rc" THEN <<TRUE, [op |-> "rc", x |-> [op |-> "sl", idx |-> t.idx, x |-> t.x.x]]>> ELSE <<FALSE, t>>

\* a slice of a reduction (keepdims = FALSE): the index addresses the kept axes; reduced axes get the full slice
SliceThroughReduction(t) ==
  IF t.op = "sl" /\ t.x.op = "red" /\ ~t.x.keep THEN
    LET inner == t.x.x
        r == Len(ShapeOf(inner))
        kept == SelectSeq([b \in 1..r |-> b], LAMBDA b : b \notin t.x.axes)
        inidx == [b \in 1..r |-> IF b \in t.x.axes
                                  THEN (IF RWMutant = "reduce-axis" /\ Len(t.idx) >= 1 THEN t.idx[1] ELSE Full)
                                  ELSE t.idx[CHOOSE j \in 1..Len(kept) : kept[j] = b]]
        \* integer indices drop kept axes: the reduced axes are renumbered among the survivors
        surv == KeptAxes(inidx)
        newaxes == {m \in 1..Len(surv) : surv[m] \in t.x.axes}
    IN IF \E b \in t.x.axes : IsIntIx(inidx[b]) THEN <<FALSE, t>>
       ELSE <<TRUE, [op |-> "red", f |-> t.x.f, axes |-> newaxes, keep |-> FALSE, x |-> [op |-> "sl", idx |-> inidx, x |-> inner]]>>
  ELSE <<FALSE, t>>

TransposeFuse(t) ==
  IF t.op = "T" /\ t.x.op = "T" THEN <<TRUE, [op |-> "T", perm |-> [a \in 1..Len(t.perm) |-> t.x.perm[t.perm[a]]], x |-> t.x.x]>>
  ELSE <<FALSE, t>>

TransposeThroughElemwise(t) ==
  IF t.op = "T" /\ t.x.op = "ew" THEN <<TRUE, [t.x EXCEPT !.x = [op |-> "T", perm |-> t.perm, x |-> t.x.x]]>> ELSE <<FALSE, t>>

\* fuse two unit-step basic indices (what fuse_slice does); b indexes the result of a
FuseElem(a, b, n) ==
  IF IsIntIx(a) THEN a
  ELSE LET sa == SliceIndices(a, n)                      \* concrete <<start, stop, 1>>
           m == RangeLen(sa[1], sa[2], 1)
       IN IF IsIntIx(b) THEN IntIx(sa[1] + PosInt(b.i, m))
          ELSE LET sb == SliceIndices(b, m) IN SliceIx(sa[1] + sb[1], sa[1] + Max2(sb[2], sb[1]), None)
SliceFuse(t) ==
  IF t.op = "sl" /\ t.x.op = "sl"
     /\ (\A j \in 1..Len(t.idx) : (IsIntIx(t.idx[j]) \/ StepOf(t.idx[j]) = 1))
     /\ (\A j \in 1..Len(t.x.idx) : (IsIntIx(t.x.idx[j]) \/ StepOf(t.x.idx[j]) = 1))
  THEN LET a == t.x.idx
           sh == ShapeOf(t.x.x)
           kept == KeptAxes(a)
           fused == [q \in 1..Len(a) |-> IF IsIntIx(a[q]) THEN a[q]
                                         ELSE FuseElem(a[q], t.idx[CHOOSE j \in 1..Len(kept) : kept[j] = q], sh[q])]
       IN <<TRUE, [op |-> "sl", idx |-> fused, x |-> t.x.x]>>
  ELSE <<FALSE, t>>

Rules == <<"SliceThroughTranspose", "SliceThroughElemwise", "SliceThroughRechunk", "SliceThroughReduction", "TransposeFuse",
           "TransposeThroughElemwise", "SliceFuse">>
Apply(name, t) ==
  CASE name = "SliceThroughTranspose" -> SliceThroughTranspose(t)
    [] name = "SliceThroughElemwise" -> SliceThroughElemwise(t)
    [] name = "SliceThroughRechunk" -> SliceThroughRechunk(t)
    [] name = "SliceThroughReduction" -> SliceThroughReduction(t)
    [] name = "TransposeFuse" -> TransposeFuse(t)
    [] name = "TransposeThroughElemwise" -> TransposeThroughElemwise(t)
    [] name = "SliceFuse" -> SliceFuse(t)

\* ---- term enumeration (depth <= 2 above the source)
AxisIdx(n) == {Full, SliceIx(1, None, None), SliceIx(None, n - 1, None), SliceIx(1, n - 1, None), SliceIx(n, None, None), IntIx(0), IntIx(-1)}
IdxFor(shape) == IF Len(shape) = 0 THEN {<<>>}
                 ELSE IF Len(shape) = 1 THEN {<<e>> : e \in AxisIdx(shape[1])}
                 ELSE IF Len(shape) = 2 THEN {<<e, f>> : e \in AxisIdx(shape[1]), f \in AxisIdx(shape[2])}
                 ELSE {<<e, f, h>> : e \in AxisIdx(shape[1]), f \in {Full, IntIx(0), SliceIx(1, None, None)}, h \in {Full, IntIx(-1)}}
PermsOf(r) == {p \in [1..r -> 1..r] : {p[a] : a \in 1..r} = 1..r}
Layer(t) ==
  LET sh == ShapeOf(t) r == Len(ShapeOf(t)) IN
  {[op |-> "sl", idx |-> i, x |-> t] : i \in {q \in IdxFor(sh) : IndexOK(sh, q)}}
  \cup (IF r >= 1 THEN {[op |-> "T", perm |-> p, x |-> t] : p \in PermsOf(r)} ELSE {})
  \cup {[op |-> "ew", f |-> "add", c |-> 3, x |-> t], [op |-> "rc", x |-> t]}
  \cup (IF r >= 1 THEN {[op |-> "red", f |-> "sum", axes |-> S, keep |-> FALSE, x |-> t] : S \in (SUBSET (1..r)) \ {{}}} ELSE {})
Depth1 == Layer([op |-> "src"])
Depth2 == UNION {Layer(t) : t \in Depth1}

VARIABLES rwterm, rwrule
rwvars == <<rwterm, rwrule>>
RWInit == rwterm \in Depth2 /\ rwrule \in {Rules[j] : j \in 1..Len(Rules)}
RWNext == UNCHANGED rwvars
RWSpec == RWInit /\ [][RWNext]_rwvars
\* every enabled rule instance preserves the denotation (value, shape, kind)
RulePreserves ==
  LET res == Apply(rwrule, rwterm) IN res[1] => (Denote(res[2]) = Denote(rwterm))
=============================================================================
