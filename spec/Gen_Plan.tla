----------------------------- MODULE Gen_Plan -----------------------------
(* Enumerates an input domain of Planner.tla and writes it as ndjson.      *)
EXTENDS Planner, Json, IOUtils, TLC
CONSTANTS Fn, NMax, SMax, Pad, Preset
VARIABLE done
Dom == CASE Fn = "normalize_slice" -> DomNormalize(NMax, SMax, Pad)
         [] Fn = "posify_index"    -> DomPosify(NMax)
         [] Fn = "slice_plan"      -> DomBlockPlan(NMax, SMax, Pad)
         [] Fn = "fuse_slice"      -> DomFuse(NMax, SMax, Pad)
         [] Fn = "compose_slices"  -> DomCompose(NMax, Pad)
         [] Fn = "plan_rechunk"    -> DomRechunk(Preset)
         [] Fn = "merge_to_number" -> DomMerge(NMax)
         [] Fn = "divide_to_width" -> DomDivide(NMax)
         [] Fn = "normalize_chunks" -> DomNormChunks(Preset)
         [] Fn = "unify_chunks"    -> DomUnify(Preset)
         [] Fn = "moved_fraction"  -> DomMoved(NMax)
         \* spec self-test: the spec's own slice semantics, to be compared with CPython
         [] Fn = "sel_oracle"      -> {<<t[1], t[2], t[3], t[4], Sel(SliceIx(t[2], t[3], t[4]), t[1])>> : t \in DomNormalize(NMax, SMax, Pad)}
Init == done = FALSE
Next == /\ ~done
        /\ LET s == SetToSeq(Dom) IN
             /\ ndJsonSerialize(IOEnv.OUT, s)
             /\ PrintT(<<"GENERATED", Len(s)>>)
        /\ done' = TRUE
=============================================================================
