#!/bin/sh
# dev helper: for every seeded change (or the ids given), apply it in a scratch worktree OUTSIDE /repo, run the quick check of its
# property with that worktree first on PYTHONPATH (so /repo itself is never touched), log the outcome, remove the worktree
out=/verif/seeded/MATRIX.txt
touch $out
ids=${@:-$(ls /verif/seeded | grep -v MATRIX)}
for sid in $ids; do
  d=/verif/seeded/$sid; prop=${CHECK:-${sid%%-*}}
  [ -f $d/patch.diff ] || continue
  wt=/tmp/mx_$sid
  git -C /repo worktree remove --force $wt 2>/dev/null
  git -C /repo worktree add -q --detach $wt HEAD || continue
  if ! git -C $wt apply $d/patch.diff 2>/dev/null; then
    (cd $wt && patch -p1 --fuzz=3 -s < $d/patch.diff) || { echo "$sid $prop PATCH-DOES-NOT-APPLY" >> $out; git -C /repo worktree remove --force $wt; continue; }
  fi
  cd /verif
  cp /verif/evidence/$prop.json /tmp/mx_ev_$prop.json 2>/dev/null   # the registered evidence must never come from a patched tree
  PYTHONPATH=$wt timeout 3000 ./check $prop --tier quick > /tmp/matrix_${sid}_$prop.log 2>&1; rc=$?
  [ -f /tmp/mx_ev_$prop.json ] && mv /tmp/mx_ev_$prop.json /verif/evidence/$prop.json
  grep -v "^$sid $prop " $out > $out.tmp 2>/dev/null; mv $out.tmp $out
  echo "$sid $prop rc=$rc violations=$(grep -c '^VIOLATION' /tmp/matrix_${sid}_$prop.log) first_clause=$(grep -m1 'clause' /tmp/matrix_${sid}_$prop.log | sed 's/.*clause: //')" >> $out
  git -C /repo worktree remove --force $wt
done
sort -o $out $out
