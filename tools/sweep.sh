#!/bin/sh
# dev helper: run the quick tier of the given checks under several seeds; print only summary / violation lines
seeds=${SEEDS:-"1 2 3"}
for s in $seeds; do
  for c in "$@"; do
    echo "== seed $s check $c"
    VERIF_SEED=$s timeout 2400 ./check $c --tier quick 2>&1 | grep -E "^VIOLATION|clause:|MACHINERY|quick:" | sort | uniq -c | sort -rn | head -8 | cut -c1-220
  done
done
