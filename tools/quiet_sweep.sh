#!/bin/sh
# dev helper: run every registered quick check on the unchanged tree with the given seed; one summary line per check
seed=${1:-0}; shift
checks=${@:-"C01 C02 C03 C04 C05 C06 C07 C08 C09 C10 C11 C12 C13 C14 C15 C16 C17 C18 C19 C20 C21 C23 C24 C25 C26 C27 C28 C29"}
for c in $checks; do
  s=$(date +%s)
  VERIF_SEED=$seed VERIF_TIER=quick timeout 3000 ./check $c --tier quick > /tmp/quiet_${c}_$seed.log 2>&1; rc=$?
  e=$(date +%s)
  echo "$c seed=$seed rc=$rc wall=$((e-s))s viol=$(grep -c '^VIOLATION' /tmp/quiet_${c}_$seed.log) known=$(grep -c '^KNOWN-FINDING' /tmp/quiet_${c}_$seed.log) $(grep -m1 -E 'MACHINERY' /tmp/quiet_${c}_$seed.log | cut -c1-160)"
done
