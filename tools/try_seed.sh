#!/bin/sh
# try_seed.sh <seed-id> <check> [tier]: apply seeded patch to /repo, run the check, always undo.
sid=$1; chk=$2; tier=${3:-quick}
cd /repo || exit 2
git diff --quiet || { echo "/repo dirty"; exit 2; }
git apply /verif/seeded/$sid/patch.diff || { echo "patch does not apply"; exit 2; }
cd /verif && timeout 3000 ./check $chk --tier $tier > /tmp/try_${sid}_${chk}.log 2>&1; rc=$?
git -C /repo checkout -- . 
echo "seed=$sid check=$chk tier=$tier rc=$rc $(grep -c '^VIOLATION' /tmp/try_${sid}_${chk}.log) violation lines; $(grep -m1 'clause' /tmp/try_${sid}_${chk}.log)"
rm -f /verif/replays/*
