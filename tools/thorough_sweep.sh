#!/bin/sh
# dev helper: run every registered thorough check on the unchanged tree; one summary line per check
checks=${@:-"C13 C15 C16 C17 C27 C26 C25 C07 C19 C18 C12 C01 C20 C14 C11 C28 C23 C24 C29 C09 C05 C21 C08 C04 C03 C10 C06 C02"}
for c in $checks; do
  s=$(date +%s)
  VERIF_SEED=0 VERIF_TIER=thorough timeout 7200 ./check $c --tier thorough > /tmp/thorough_${c}.log 2>&1; rc=$?
  e=$(date +%s)
  echo "$c thorough rc=$rc wall=$((e-s))s viol=$(grep -c '^VIOLATION' /tmp/thorough_${c}.log) known=$(grep -c '^KNOWN-FINDING' /tmp/thorough_${c}.log) $(grep -m1 -E 'MACHINERY' /tmp/thorough_${c}.log | cut -c1-200)"
  grep -E "^  clause" /tmp/thorough_${c}.log | sort | uniq -c | sort -rn | head -5
done
