"""dev helper: tools/tlcrun.py Module 'cfg text' [workers]  -> prints TLC summary"""
import sys
sys.path.insert(0, '/verif')
from harness import tlc
mod, cfg = sys.argv[1], sys.argv[2].replace('\\n', '\n')
res = tlc.run_tlc(mod, cfg, workers=int(sys.argv[3]) if len(sys.argv) > 3 and sys.argv[3].isdigit() else 1, coverage='-c' in sys.argv, timeout=600)
print("rc", res.rc, "gen", res.generated, "distinct", res.distinct, "depth", res.depth, "inv", res.invariant_violated, "deadlock", res.deadlock, "err", res.error)
if res.error or '-v' in sys.argv or res.invariant_violated:
    print(res.out[-3000:])
for p in res.printed[:10]: print(p)
