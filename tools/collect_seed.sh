#!/bin/sh
# collect_seed.sh <worktree> <seed-id> : verify an agent-made seeded change and store it under /verif/seeded/<seed-id>
# (demo fails with the change, passes without, whole test suite passes with the change), then remove the worktree.
wt=$1; sid=$2
[ -d "$wt/_seed" ] || { echo "no _seed in $wt"; exit 2; }
dst=/verif/seeded/$sid; mkdir -p $dst
cd $wt || exit 2
git diff HEAD -- dask_array > $dst/patch.diff
cp _seed/demo.py $dst/demo.py; cp _seed/notes.md $dst/notes.md 2>/dev/null
[ -s $dst/patch.diff ] || { echo "empty patch"; exit 2; }
timeout 600 /venv/bin/python _seed/demo.py > $dst/demo_with_change.log 2>&1; rc_with=$?
git apply -R $dst/patch.diff || { echo 'cannot reverse patch'; exit 2; }
timeout 600 /venv/bin/python _seed/demo.py > $dst/demo_without_change.log 2>&1; rc_without=$?
git apply $dst/patch.diff || { echo 'cannot re-apply patch'; exit 2; }
timeout 1800 /venv/bin/python -m pytest -q -p no:cacheprovider -n 8 --timeout=900 2>&1 | tail -1 > $dst/tests_with_change.log
echo "seed=$sid demo_with_change_rc=$rc_with demo_without_change_rc=$rc_without tests: $(cat $dst/tests_with_change.log)"
