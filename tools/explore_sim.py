"""Exploration aid (NOT a registered check): TLC simulation of ArrayProgram.tla at depth 4-7,
replayed into dask_array; prints the categories of discrepancies.  usage:
    cd /verif && PYTHONHASHSEED=0 /venv/bin/python tools/explore_sim.py <seed> [num]"""
import collections
import re
import sys

sys.path.insert(0, "/verif")
from harness import replay, tlc  # noqa: E402

seed = int(sys.argv[1]) if len(sys.argv) > 1 else 1
num = int(sys.argv[2]) if len(sys.argv) > 2 else 2000
rd = tlc.new_rundir("explore")
cnt = collections.Counter()
try:
    for maxlen, preset in ((4, "mixed"), (6, "small")):
        behs, res = replay.generate_programs(acts=replay.ALL_ACTS, maxlen=maxlen, preset=preset, sim=True, num=num,
                                             seed=seed + maxlen, rundir=rd, timeout=1200)
        out = replay.run_corpus(behs, max_variants=1, seed=seed)
        print(f"depth {maxlen}: {len(behs)} behaviours, {out.n_programs} programs, spec/NumPy mismatches {len(out.machinery)}")
        for case, clause in out.violations:
            cnt[(clause, case.get("act", {}).get("a"), re.sub(r"\d+", "N", case["detail"])[:120])] += 1
finally:
    tlc.cleanup(rd)
for k, v in cnt.most_common():
    print(v, k)
