"""dev helper: run a check in-process and summarise ALL violations by (clause, action sequence)"""
import collections, os, sys
sys.path.insert(0, '/verif')
os.environ.setdefault("OPENBLAS_NUM_THREADS", "1")
import importlib
from harness import tlc
from harness.common import Check
pid, tier = sys.argv[1], (sys.argv[2] if len(sys.argv) > 2 else "quick")
mod = importlib.import_module(f"harness.checks.{pid}")
chk = Check(pid, tier, int(os.environ.get("VERIF_SEED", "0"))); chk.write_evidence = False
os.makedirs(tlc.CACHE, exist_ok=True)
mod.run(chk)
c = collections.Counter(); ex = {}
for case, clause in chk.violations:
    acts = tuple(a['a'] + (':' + str(a.get('op') or a.get('entry') or '') if (a.get('op') or a.get('entry')) else '') for a in case.get('prog', [])[1:])
    key = (clause, acts)
    c[key] += 1; ex.setdefault(key, case)
print("violations", len(chk.violations), "known", dict(chk.known))
for k, v in c.most_common(int(sys.argv[3]) if len(sys.argv) > 3 else 40):
    cs = ex[k]
    extra = [(e['entry'], e['val'].get('err', '')[:70]) for e in cs.get('entries', []) if e['val']['kind'] in ('raised', 'o')][:2]
    print(v, k, cs.get('grids'), extra or cs.get('detail', '')[:150])
