#!/bin/sh
# Offline setup: nothing to compile.  Parse every TLA+ module with SANY and run
# the spec-vs-CPython self-test.
cd "$(dirname "$0")" || exit 2
mkdir -p .cache evidence replays
fail=0
cd spec
for m in *.tla; do
  if ! tla-sany "$m" > ../.cache/sany-$m.log 2>&1 || grep -qE "Fatal errors|\*\*\* Errors" ../.cache/sany-$m.log; then
    echo "SANY failed on $m"; tail -20 ../.cache/sany-$m.log; fail=1
  fi
done
cd ..
[ $fail -eq 0 ] || exit 2
echo "SANY: all modules parse"
PYTHONHASHSEED=0 /venv/bin/python -m harness.selftest || exit 2
echo "setup ok"
