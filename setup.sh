#!/bin/sh
# Offline setup: nothing to compile.  Parse every TLA+ module with SANY, run the spec-vs-CPython self-test, model-check the
# L1 state machines (small constants), and pre-generate the program corpora of the quick tiers with TLC.
cd "$(dirname "$0")" || exit 2
mkdir -p .cache evidence replays
export PYTHONHASHSEED=0 PYTHONDONTWRITEBYTECODE=1 OPENBLAS_NUM_THREADS=1 OMP_NUM_THREADS=1
fail=0
cd spec
for m in *.tla; do
  if ! tla-sany "$m" > ../.cache/sany-$m.log 2>&1 || grep -qE "Fatal errors|\*\*\* Errors" ../.cache/sany-$m.log; then
    echo "SANY failed on $m"; tail -20 ../.cache/sany-$m.log; fail=1
  fi
done
cd ..
[ $fail -eq 0 ] || exit 2
echo "SANY: all modules parse"
/venv/bin/python -m harness.selftest || exit 2
/venv/bin/python -m harness.modelcheck || exit 2
/venv/bin/python -m harness.pregen || exit 2
echo "setup ok"
