"""C26: interpreter histories (orders of importing xarray, dask_array sub-modules, register()) run in fresh interpreters."""
from __future__ import annotations

import json
import os
import subprocess
import sys

WORKER = r'''
import importlib, json, sys
steps = json.loads(sys.argv[1])
ev = []
def probe(step):
    manager, active = "none", 0
    if "xarray" in sys.modules:
        try:
            from xarray.namedarray.parallelcompat import list_chunkmanagers
            m = list_chunkmanagers().get("dask")
            manager = "none" if m is None else ("ours" if type(m).__module__.startswith("dask_array") else "stock")
        except Exception as ex:
            manager = "error:" + type(ex).__name__
    if "dask_array" in sys.modules:
        try:
            import dask_array.xarray as dx
            active = int(bool(dx.isactive()))
        except Exception as ex:
            active = 0
    ev.append({"step": step, "manager": manager, "active": active})
values_equal = -1
for st in steps:
    if st == "register":
        import dask_array.xarray as dx
        dx.register()
    elif st == "compute":
        import numpy as np, xarray as xr
        a = np.arange(24.0).reshape(4, 6)
        ref = xr.DataArray(a, dims=("x", "y"))
        lazy = xr.DataArray(a, dims=("x", "y")).chunk({"x": 2, "y": 3})
        r1 = (ref * 2 + 1).mean("x").values
        r2 = (lazy * 2 + 1).mean("x").values
        r3 = lazy.isel(x=slice(1, 3)).sum("y").values
        values_equal = int(np.allclose(r1, r2) and np.allclose(ref.isel(x=slice(1, 3)).sum("y").values, r3))
        import dask_array
        if not isinstance(lazy.data, dask_array.Array):
            values_equal = 0
        continue
    elif st.startswith("use "):
        # ordinary use of the library (no register()): plain arrays, and xarray objects holding dask_array arrays that go through
        # dask's own entry points
        import numpy as np, dask, dask_array as da
        x = da.from_array(np.arange(12.0).reshape(3, 4), chunks=(2, 2))
        what = st.split(" ", 1)[1]
        try:
            if what == "array-compute":
                (x + 1).sum().compute()
            elif what == "array-persist":
                dask.persist(x + 1); x.persist()
            else:
                import xarray as xr
                ds = xr.Dataset({"a": (("x", "y"), x), "b": (("x",), da.from_array(np.arange(3.0), chunks=2))})
                if what == "dataset-persist":
                    dask.persist(ds)
                elif what == "dataset-optimize":
                    dask.optimize(ds)
                elif what == "dataset-compute":
                    dask.compute(ds); ds.compute()
        except Exception as ex:
            ev.append({"step": st + " (raised " + type(ex).__name__ + ")", "manager": "none", "active": 0})
            continue
    else:
        try:
            importlib.import_module(st.split(" ", 1)[1])
        except Exception as ex:
            ev.append({"step": st + " (import failed: " + type(ex).__name__ + ")", "manager": "none", "active": 0})
            continue
    probe(st)
print(json.dumps({"ev": ev, "values_equal": values_equal}))
'''


def submodules():
    import pkgutil

    import dask_array

    out = ["dask_array"]
    for m in pkgutil.walk_packages(dask_array.__path__, "dask_array."):
        n = m.name
        if ".tests" in n or "_rust" in n:
            continue
        out.append(n)
    return sorted(out)


def run_history(steps):
    env = dict(os.environ, PYTHONHASHSEED="0", OPENBLAS_NUM_THREADS="1")
    p = subprocess.run([sys.executable, "-c", WORKER, json.dumps(steps)], capture_output=True, text=True, timeout=300, env=env,
                       cwd=os.path.dirname(os.path.dirname(os.path.abspath(__file__))))
    if p.returncode != 0:
        return {"steps": steps, "err": p.stderr[-400:]}
    last = [ln for ln in p.stdout.splitlines() if ln.startswith("{")][-1]
    return dict(json.loads(last), steps=steps)
