"""Model-check the L1 state machines themselves with small constants (design-level verification; the conformance checks
bind them to the code).  Each entry: (label, module, cfg, expectation).  Used by setup.sh and by the checks that cite a model
(the statistics go into their evidence)."""
from __future__ import annotations

import sys

from . import tlc

MODELS = {
    "TaskGraph:pure": ("TaskGraph", 'SPECIFICATION MCSpec\nINVARIANT ScheduleIndependent\nINVARIANT NoDeadlockBeforeDone\nINVARIANT MCTypeOK\n'
                       'CHECK_DEADLOCK FALSE\nCONSTANTS MCMode = "pure"\n', "holds"),
    # spec mutant: a task that updates its first dependency in place must break schedule independence
    "TaskGraph:impure-mutant": ("TaskGraph", 'SPECIFICATION MCSpec\nINVARIANT ScheduleIndependent\nCHECK_DEADLOCK FALSE\n'
                                'CONSTANTS MCMode = "impure"\n', "violates:ScheduleIndependent"),
    "Optimizer:termination": ("Optimizer", 'SPECIFICATION OptSpec\nINVARIANT BoundedProgress\nINVARIANT NeverRevisits\nPROPERTY EventuallyDone\n'
                              'CHECK_DEADLOCK FALSE\nCONSTANTS OptNames = {"a", "b", "c", "d"}\n', "holds"),
    "SourceIO:phases": ("MC_SourceIO", 'SPECIFICATION IOSpec\nINVARIANT DataOnlyWhenExecuting\nINVARIANT ReadsInBounds\nCHECK_DEADLOCK FALSE\n'
                        'CONSTANTS IOReqs <- MCReqs\nIOShape <- MCShape\n', "holds"),
    "Naming:cache": ("MC_Naming", 'SPECIFICATION NSpec\nINVARIANT CacheSound\nINVARIANT NTypeOK\nCHECK_DEADLOCK FALSE\n'
                     'CONSTANTS NNames <- MCNames\nNDescs <- MCDescs\nNCfgs <- MCCfgs\n', "holds"),
    "RandomRealization:ok": ("RandomRealization", 'SPECIFICATION RSpec\nINVARIANT OneRealization\nCHECK_DEADLOCK FALSE\n'
                             'CONSTANTS RNodes = {"r1", "r2"}\nRMode = "ok"\n', "holds"),
    "RandomRealization:redraw-mutant": ("RandomRealization", 'SPECIFICATION RSpec\nINVARIANT OneRealization\nCHECK_DEADLOCK FALSE\n'
                                        'CONSTANTS RNodes = {"r1", "r2"}\nRMode = "redraw"\n', "violates:OneRealization"),
    "XarrayOptIn:ok": ("XarrayOptIn", 'SPECIFICATION XSpec\nINVARIANT OptIn\nCHECK_DEADLOCK FALSE\n'
                       'CONSTANTS XModules = {"dask_array", "dask_array._xarray", "dask_array.xarray", "dask_array._rechunk"}\nXMode = "ok"\n', "holds"),
    "XarrayOptIn:eager-mutant": ("XarrayOptIn", 'SPECIFICATION XSpec\nINVARIANT OptIn\nCHECK_DEADLOCK FALSE\n'
                                 'CONSTANTS XModules = {"dask_array", "dask_array._xarray", "dask_array.xarray"}\nXMode = "eager"\n',
                                 "violates:OptIn"),
    "TreeReduce:all-trees": ("TreeReduce", 'SPECIFICATION TRSpec\nINVARIANT TreeIndependent\nCHECK_DEADLOCK FALSE\n'
                             'CONSTANTS TRKinds = {"sum", "nansum", "max", "min", "any", "all", "mean", "nanmean", "var", "argmax"}\n'
                             'TRLen = 5\nTRVals = {0, 1, 3, 99}\nTRSplit = 3\n', "holds"),
    "Rewrites:sound-2d": ("Rewrites", 'SPECIFICATION RWSpec\nINVARIANT RulePreserves\nCHECK_DEADLOCK FALSE\n'
                          'CONSTANTS RWShape <- MCShape2\nRWMutant = "none"\n', "holds"),
    "Rewrites:sound-3d": ("Rewrites", 'SPECIFICATION RWSpec\nINVARIANT RulePreserves\nCHECK_DEADLOCK FALSE\n'
                          'CONSTANTS RWShape <- MCShape3\nRWMutant = "none"\n', "holds"),
    "Rewrites:transpose-axis-mutant": ("Rewrites", 'SPECIFICATION RWSpec\nINVARIANT RulePreserves\nCHECK_DEADLOCK FALSE\n'
                                       'CONSTANTS RWShape <- MCShape3\nRWMutant = "transpose-axis"\n', "violates:RulePreserves"),
    "Rewrites:reduce-axis-mutant": ("Rewrites", 'SPECIFICATION RWSpec\nINVARIANT RulePreserves\nCHECK_DEADLOCK FALSE\n'
                                    'CONSTANTS RWShape <- MCShape2\nRWMutant = "reduce-axis"\n', "violates:RulePreserves"),
    "Fusion:sound": ("Fusion", 'SPECIFICATION FSpec\nINVARIANT FusionClosed\nINVARIANT ProvenanceKept\nINVARIANT MappingsArePerms\n'
                     'CHECK_DEADLOCK FALSE\nCONSTANTS FRank = 3\nFDepth = 2\nFMutant = "none"\n', "holds"),
    "Fusion:forward-perm-mutant": ("Fusion", 'SPECIFICATION FSpec\nINVARIANT FusionClosed\nCHECK_DEADLOCK FALSE\n'
                                   'CONSTANTS FRank = 3\nFDepth = 2\nFMutant = "forward-perm"\n', "violates:FusionClosed"),
    "Fusion:forward-perm-2d-indistinguishable": ("Fusion", 'SPECIFICATION FSpec\nINVARIANT FusionClosed\nINVARIANT ProvenanceKept\n'
                                                 'CHECK_DEADLOCK FALSE\nCONSTANTS FRank = 2\nFDepth = 2\nFMutant = "forward-perm"\n', "holds"),
    "Blelloch:plan": ("Blelloch", 'SPECIFICATION BSpec\nINVARIANT PrefixesExact\nINVARIANT NeverTwice\nINVARIANT OnlyEarlier\nCHECK_DEADLOCK FALSE\n'
                      'CONSTANTS BNMax = 40\nBMutant = "none"\n', "holds"),
    "Blelloch:floor-stride-mutant": ("Blelloch", 'SPECIFICATION BSpec\nINVARIANT PrefixesExact\nCHECK_DEADLOCK FALSE\n'
                                     'CONSTANTS BNMax = 40\nBMutant = "floor-stride"\n', "violates:PrefixesExact"),
    "MapBlocksInfo:exact": ("MC_MapBlocksInfo", 'SPECIFICATION MBSpec\nINVARIANT SeenOnGrid\nINVARIANT Exact\nCHECK_DEADLOCK FALSE\n'
                            'CONSTANTS MBLayouts <- MCLayouts\nMBRecs <- MCRecs\n', "holds"),
}


def run_model(label, coverage=False):
    module, cfg, expect = MODELS[label]
    res = tlc.run_tlc(module, cfg, workers=2, timeout=600, coverage=coverage, tag="mc")
    if expect == "holds":
        ok = not res.error and not res.invariant_violated and not res.property_violated and res.rc == 0
    else:
        want = expect.split(":", 1)[1]
        ok = want in res.invariant_violated
    if not ok:
        raise tlc.MachineryError(f"model check {label}: expected '{expect}', TLC said rc={res.rc} violated={res.invariant_violated}\n{res.out[-1500:]}")
    return res


def add_models(chk, labels):
    """run the models a check cites and account their state counts in its evidence"""
    for label in labels:
        res = run_model(label)
        chk.add_tlc(res, f"model:{label}")
        chk.part(f"model:{label}", expectation=MODELS[label][2], depth=res.depth)


def main():
    for label in MODELS:
        res = run_model(label)
        print(f"model {label}: {MODELS[label][2]} ({res.distinct} distinct states, depth {res.depth})")
    return 0


if __name__ == "__main__":
    try:
        sys.exit(main())
    except tlc.MachineryError as ex:
        print(ex)
        sys.exit(2)
