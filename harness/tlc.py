"""Thin driver around TLC: run a module with a generated cfg, shard, parse output.

All verdicts of the framework come from TLC runs started here.  Scratch files
live under /verif/.cache (git-ignored), never under /tmp.
"""
from __future__ import annotations

import concurrent.futures as cf
import json
import os
import re
import shutil
import subprocess
import time
import uuid

VERIF = os.path.dirname(os.path.dirname(os.path.abspath(__file__)))
SPEC = os.path.join(VERIF, "spec")
CACHE = os.path.join(VERIF, ".cache")
JAR = "/opt/veriftools/tla/tla2tools.jar:/opt/veriftools/tla/CommunityModules-deps.jar"


class MachineryError(Exception):
    """The harness itself failed (TLC crashed, timeout, parse error): exit 2."""


def new_rundir(tag: str) -> str:
    d = os.path.join(CACHE, f"run-{tag}-{os.getpid()}-{uuid.uuid4().hex[:8]}")
    os.makedirs(d, exist_ok=True)
    return d


def cleanup(d: str) -> None:
    shutil.rmtree(d, ignore_errors=True)


_TUPLE_RE = re.compile(r"^<<.*>>$")


def _parse_printed(line: str):
    """Values printed by PrintT: JSON strings (from ToJson) or flat tuples."""
    line = line.strip()
    if not line:
        return None
    if line[0] == '"' and line[-1] == '"':
        try:
            s = json.loads(line)
        except Exception:
            return None
        if s and s[0] in "{[":
            try:
                return json.loads(s)
            except Exception:
                return None
        return None
    if _TUPLE_RE.match(line):
        try:
            return json.loads(line.replace("<<", "[").replace(">>", "]"))
        except Exception:
            return None
    return None


class TLCResult:
    def __init__(self, out: str, rc: int, wall: float):
        self.out = out
        self.rc = rc
        self.wall = wall
        self.printed = []
        pending = None
        for ln in out.splitlines():
            # TLC wraps long printed tuples over several lines: join until the brackets balance
            if pending is not None:
                pending += " " + ln.strip()
                if pending.count("<<") <= pending.count(">>"):
                    v = _parse_printed(pending.replace("<< ", "<<").replace(" >>", ">>"))
                    if v is not None:
                        self.printed.append(v)
                    pending = None
                continue
            st = ln.strip()
            if st.startswith("<<") and st.count("<<") > st.count(">>"):
                pending = st
                continue
            v = _parse_printed(ln)
            if v is not None:
                self.printed.append(v)
        m = re.search(r"(\d+) states generated, (\d+) distinct states found", out)
        self.generated = int(m.group(1)) if m else 0
        self.distinct = int(m.group(2)) if m else 0
        if not m:
            m2 = re.search(r"The number of states generated: (\d+)", out)
            if m2:
                self.generated = int(m2.group(1))
                self.distinct = int(m2.group(1))
        m = re.search(r"The depth of the complete state graph search is (\d+)", out)
        self.depth = int(m.group(1)) if m else 0
        self.invariant_violated = re.findall(r"Invariant (\S+) is violated", out)
        self.property_violated = ("Temporal properties were violated" in out) or bool(
            re.search(r"Action property \S+ is violated", out)
        )
        self.deadlock = "Deadlock reached" in out
        self.error = (
            ("Error:" in out)
            and not self.invariant_violated
            and not self.property_violated
            and not self.deadlock
        )
        self.coverage = {}
        for m in re.finditer(r"<(\w+) line \d+, col \d+ to line \d+, col \d+ of module (\w+)>: (\d+):(\d+)", out):
            self.coverage[m.group(1)] = (int(m.group(3)), int(m.group(4)))

    def tuples(self, tag: str):
        return [p for p in self.printed if isinstance(p, list) and p and p[0] == tag]

    def records(self):
        return [p for p in self.printed if isinstance(p, dict)]


def run_tlc(
    module: str,
    cfg: str,
    *,
    env: dict | None = None,
    workers: int = 1,
    simulate: str | None = None,
    depth: int | None = None,
    seed: int | None = None,
    timeout: int = 900,
    coverage: bool = False,
    rundir: str | None = None,
    heap: str = "2g",
    dfs: bool = False,
    tag: str = "tlc",
) -> TLCResult:
    """Run TLC on spec/<module>.tla with the given cfg text."""
    own = rundir is None
    d = rundir or new_rundir(tag)
    cfgp = os.path.join(d, f"{module}-{uuid.uuid4().hex[:6]}.cfg")
    with open(cfgp, "w") as f:
        f.write(cfg)
    meta = os.path.join(d, "meta-" + uuid.uuid4().hex[:6])
    cmd = ["java", "-XX:+UseSerialGC" if workers == 1 else "-XX:+UseParallelGC", f"-Xmx{heap}", "-Xss16m", "-XX:TieredStopAtLevel=4"]
    if dfs:
        cmd.append("-Dtlc2.tool.queue.IStateQueue=StateDeque")
    cmd += ["-cp", JAR, "tlc2.TLC", "-workers", str(workers), "-metadir", meta, "-noGenerateSpecTE", "-config", cfgp]
    if simulate:
        cmd += ["-simulate", simulate]
    if depth is not None:
        cmd += ["-depth", str(depth)]
    if seed is not None:
        cmd += ["-seed", str(seed)]
    if coverage:
        cmd += ["-coverage", "1"]
    cmd.append(os.path.join(SPEC, module + ".tla"))
    e = dict(os.environ)
    e.pop("JAVA_TOOL_OPTIONS", None)
    if env:
        e.update({k: str(v) for k, v in env.items()})
    t0 = time.time()
    try:
        p = subprocess.run(cmd, cwd=d, env=e, capture_output=True, text=True, timeout=timeout)
    except subprocess.TimeoutExpired as ex:
        raise MachineryError(f"TLC timeout after {timeout}s on {module}") from ex
    finally:
        shutil.rmtree(meta, ignore_errors=True)
    res = TLCResult(p.stdout + p.stderr, p.returncode, time.time() - t0)
    if own:
        cleanup(d)
    return res


def run_many(jobs, max_workers: int = 5):
    """jobs: list of (callable, args, kwargs); run in a thread pool (each is a JVM)."""
    out = [None] * len(jobs)
    with cf.ThreadPoolExecutor(max_workers=max_workers) as ex:
        futs = {ex.submit(fn, *a, **k): i for i, (fn, a, k) in enumerate(jobs)}
        for fu in cf.as_completed(futs):
            out[futs[fu]] = fu.result()
    return out


def require_clean(res: TLCResult, what: str) -> None:
    if res.error or (res.rc != 0 and not res.invariant_violated and not res.deadlock and not res.property_violated):
        lines = res.out.splitlines()
        first = next((n for n, ln in enumerate(lines) if "Error:" in ln), max(0, len(lines) - 25))
        tail = "\n".join(lines[first:first + 25])
        raise MachineryError(f"TLC failed on {what} (rc={res.rc}):\n{tail}")


def write_ndjson(path: str, rows) -> None:
    with open(path, "w") as f:
        for r in rows:
            f.write(json.dumps(r, separators=(",", ":")))
            f.write("\n")


def write_json(path: str, obj) -> None:
    with open(path, "w") as f:
        json.dump(obj, f, separators=(",", ":"))
