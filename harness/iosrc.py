"""Recording array-likes (sources), targets and the phase register used by the SourceIO checks (C24, C25, C29)."""
from __future__ import annotations

import threading

import numpy as np

PHASE = ["constructing"]      # one-element list: the driver sets PHASE[0] around every step


def set_phase(p):
    PHASE[0] = p


def _norm_req(idx, ndim):
    if not isinstance(idx, tuple):
        idx = (idx,)
    out = []
    for e in idx:
        if isinstance(e, slice):
            f = lambda v: 99 if v is None else int(v)
            out.append({"k": "slice", "start": f(e.start), "stop": f(e.stop), "step": f(e.step)})
        elif isinstance(e, (int, np.integer)):
            out.append({"k": "int", "i": int(e)})
        else:
            out.append({"k": "other", "repr": repr(e)[:40]})
    return out


class RecordingSource:
    """An array-like that is not a NumPy array: dask_array can only learn about its data through __getitem__."""

    def __init__(self, arr, grid=None, custom_attrs=None):
        self._arr = arr
        self.shape = arr.shape
        self.dtype = arr.dtype
        self.ndim = arr.ndim
        self.log = []
        if grid is not None:
            self.chunks = tuple(int(max(ax)) for ax in grid)     # a storage grid of uniform chunk sizes (zarr / h5py style)

    def __getitem__(self, idx):
        self.log.append({"e": "read", "req": _norm_req(idx, self.ndim), "phase": PHASE[0]})
        return np.asarray(self._arr[idx])

    def __len__(self):
        return self.shape[0]


class RecordingTarget:
    def __init__(self, arr):
        self.arr = arr
        self.shape = arr.shape
        self.dtype = arr.dtype
        self.ndim = arr.ndim
        self.log = []

    def __setitem__(self, idx, value):
        self.log.append({"e": "write", "req": _norm_req(idx, self.ndim), "phase": PHASE[0], "shape": list(np.shape(value))})
        self.arr[idx] = value

    def __getitem__(self, idx):
        return self.arr[idx]


def custom_getitem(log):
    def getitem(a, b, asarray=True, lock=None):
        log.append(1)
        c = a[b]
        return np.asarray(c) if asarray else c

    return getitem


class CountingLock:
    def __init__(self):
        self._lock = threading.Lock()
        self.acquired = 0

    def acquire(self, *a, **k):
        self.acquired += 1
        return self._lock.acquire(*a, **k)

    def release(self):
        return self._lock.release()

    def __enter__(self):
        self.acquire()
        return self

    def __exit__(self, *a):
        self.release()
