"""Observation of task graphs: export to the TaskGraph.tla vocabulary, prescribed-order execution
with fingerprints of every live value (the driver-owned scheduler of DESIGN 3.3)."""
from __future__ import annotations

import hashlib
import random

import numpy as np


def flatten_keys(keys):
    out = []

    def rec(k):
        if isinstance(k, list):
            for e in k:
                rec(e)
        else:
            out.append(k)

    rec(keys)
    return out


def convert(dsk):
    from dask._task_spec import convert_legacy_graph

    return convert_legacy_graph(dict(dsk))


def export_graph(dsk, outkeys, converted=None):
    """-> (G, ids, gg): G in TaskGraph.tla form, ids: key -> id, gg: converted graph"""
    gg = converted if converted is not None else convert(dsk)
    ids = {}

    def kid(k):
        if k not in ids:
            ids[k] = len(ids) + 1
        return ids[k]

    for k in gg:
        kid(k)
    deps = {}
    for k, t in gg.items():
        deps[ids[k]] = sorted(kid(d) for d in t.dependencies)
    outs = [kid(k) for k in outkeys]
    n = len(ids)
    G = {"n": n, "defd": sorted(ids[k] for k in gg), "deps": [deps.get(j, []) for j in range(1, n + 1)], "outs": outs}
    return G, ids, gg


def key_records(keys):
    out = []
    for k in keys:
        if isinstance(k, tuple):
            out.append({"name": str(k[0]), "idx": [int(v) for v in k[1:]]})
        else:
            out.append({"name": str(k), "idx": [-1]})
    return out


# ------------------------------------------------------------------ fingerprints
def fingerprint(v) -> str:
    h = hashlib.blake2b(digest_size=6)
    _fp(v, h)
    return h.hexdigest()


def _fp(v, h):
    if isinstance(v, np.ndarray):
        h.update(b"A")
        h.update(str(v.dtype).encode())
        h.update(str(v.shape).encode())
        if isinstance(v, np.ma.MaskedArray):
            h.update(np.ascontiguousarray(np.ma.getdata(v)).tobytes())
            h.update(np.ascontiguousarray(np.ma.getmaskarray(v)).tobytes())
        elif v.dtype.hasobject:
            h.update(repr(v.tolist()).encode())
        else:
            h.update(np.ascontiguousarray(v).tobytes())
    elif isinstance(v, np.generic):
        # a NumPy scalar and the 0-d array of the same value are the same block value
        h.update(b"A")
        h.update(str(v.dtype).encode())
        h.update(b"()")
        h.update(v.tobytes())
    elif isinstance(v, (list, tuple)):
        h.update(b"L" if isinstance(v, list) else b"T")
        h.update(str(len(v)).encode())
        for e in v:
            _fp(e, h)
    elif isinstance(v, dict):
        h.update(b"D")
        for k in sorted(v, key=repr):
            h.update(repr(k).encode())
            _fp(v[k], h)
    elif isinstance(v, (int, float, complex, str, bytes, bool, type(None), slice)):
        h.update(b"S")
        h.update(repr(v).encode())
    else:
        # opaque objects (functions, generators, locks, array-likes): identity-free marker
        h.update(b"O")
        h.update(type(v).__name__.encode())
        if hasattr(v, "key") and not callable(v):
            h.update(repr(getattr(v, "key", None)).encode())
        arr = getattr(v, "__array__", None)
        if arr is not None and not callable(v):
            try:
                _fp(np.asarray(v), h)
            except Exception:
                pass


# ------------------------------------------------------------------ schedules
def topo_orders(G, how_many=4, seed=0):
    """A list of topological orders (lists of ids) of the defined tasks of G: depth-first (LIFO),
    breadth-first (FIFO), reverse-id priority, and seeded random ones; distinct orders only."""
    defd = list(G["defd"])
    deps = {k: set(G["deps"][k - 1]) for k in defd}
    if any(not d <= set(defd) for d in deps.values()):
        return []
    users = {k: [] for k in defd}
    for k, ds in deps.items():
        for d in ds:
            users[d].append(k)

    def run(pick):
        missing = {k: len(deps[k]) for k in defd}
        ready = sorted(k for k in defd if missing[k] == 0)
        order = []
        while ready:
            k = pick(ready)
            ready.remove(k)
            order.append(k)
            for u in users[k]:
                missing[u] -= 1
                if missing[u] == 0:
                    ready.append(u)
        return order if len(order) == len(defd) else None

    orders = []
    picks = [lambda r: r[-1], lambda r: r[0], lambda r: max(r), lambda r: min(r)]
    rng = random.Random(seed)
    picks += [lambda r, rng=rng: rng.choice(r) for _ in range(max(0, how_many - len(picks)))]
    for p in picks[:max(how_many, 1)]:
        o = run(p)
        if o is not None and o not in orders:
            orders.append(o)
    return orders


def execute(gg, ids, order, sources=(), fingerprints=True, watch=None):
    """Run the converted graph in the given order (list of ids).  Returns (events, store):
    events: [k, out, pre, post] per task with fingerprints of every live value (stored task results
    under their ids, user source arrays under -1, -2, ...) before and after the task."""
    by_id = {i: k for k, i in ids.items()}
    store = {}
    events = []

    def live():
        out = [[i, fingerprint(store[by_id[i]])] for i in sorted(done)]
        out += [[-(j + 1), fingerprint(s)] for j, s in enumerate(sources)]
        return out

    done = []
    for i in order:
        k = by_id[i]
        t = gg[k]
        pre = live() if fingerprints else []
        val = t({d: store[d] for d in t.dependencies})
        store[k] = val
        post = live() if fingerprints else []
        done.append(i)
        events.append({"k": i, "out": fingerprint(val) if fingerprints else "", "pre": pre, "post": post})
    return events, store


# ------------------------------------------------------------------ Frisky records
def export_records(records, outkeys):
    """records: (key, func, args, kwargs, deps) with string keys -> (G, ids)"""
    ids = {}

    def kid(k):
        k = str(k)
        if k not in ids:
            ids[k] = len(ids) + 1
        return ids[k]

    dup = 0          # keys defined twice with DIFFERENT content (identical duplicates are harmless)
    seen = {}
    for r in records:
        sig = (getattr(r[1], "__name__", repr(r[1])), fingerprint([r[2], r[3]]), tuple(sorted(map(str, r[4]))))
        if str(r[0]) in seen and seen[str(r[0])] != sig:
            dup += 1
        seen.setdefault(str(r[0]), sig)
        kid(r[0])
    deps = {}
    for r in records:
        # a key defined by several records (a pinned alias and the raw task of the same name): the first one is used,
        # here and in execute_records
        deps.setdefault(ids[str(r[0])], sorted(kid(d) for d in r[4]))
    outs = [kid(k) for k in outkeys]
    n = len(ids)
    G = {"n": n, "defd": sorted({ids[str(r[0])] for r in records}), "deps": [deps.get(j, []) for j in range(1, n + 1)], "outs": outs}
    return G, ids, dup


def execute_records(records, G, ids):
    """run the records in a topological order with a plain in-process executor; -> store (key string -> value)"""
    from dask._task_spec import TaskRef

    by_key = {}
    for r in records:
        by_key.setdefault(str(r[0]), r)
    by_id = {i: k for k, i in ids.items()}
    order = topo_orders(G, how_many=1)
    if not order:
        raise RuntimeError("records graph is not executable (dangling dependency or cycle)")
    store = {}

    def res(a):
        if isinstance(a, TaskRef):
            return store[str(a.key)]
        if isinstance(a, list):
            return [res(x) for x in a]
        if isinstance(a, tuple):
            return tuple(res(x) for x in a)
        if isinstance(a, dict):
            return {k: res(v) for k, v in a.items()}
        return a

    for i in order[0]:
        key, func, args, kwargs, _ = by_key[by_id[i]]
        store[str(key)] = func(*[res(a) for a in args], **{k: res(v) for k, v in (kwargs or {}).items()})
    return store
