"""CLI: ./check Cxx --tier quick|thorough [--seed N] [--replay path]"""
from __future__ import annotations

import argparse
import importlib
import os
import sys
import traceback

from . import tlc
from .common import Check, env_seed


def main(argv=None) -> int:
    ap = argparse.ArgumentParser()
    ap.add_argument("prop")
    ap.add_argument("--tier", default=os.environ.get("VERIF_TIER", "quick"), choices=["quick", "thorough"])
    ap.add_argument("--seed", type=int, default=None)
    ap.add_argument("--replay", default=None)
    a = ap.parse_args(argv)
    seed = a.seed if a.seed is not None else env_seed()
    try:
        mod = importlib.import_module(f"harness.checks.{a.prop}")
    except ModuleNotFoundError:
        print(f"no check for {a.prop}", file=sys.stderr)
        return 2
    os.makedirs(tlc.CACHE, exist_ok=True)
    chk = Check(a.prop, a.tier, seed)
    try:
        if a.replay:
            chk.write_evidence = False
            return getattr(mod, 'replay_cmd', None)(chk, a.replay) if hasattr(mod, 'replay_cmd') else mod.replay(chk, a.replay)
        mod.run(chk)
        return chk.finish()
    except tlc.MachineryError as ex:
        print(f"MACHINERY-ERROR property={a.prop}: {ex}", file=sys.stderr)
        return 2
    except Exception:
        traceback.print_exc()
        print(f"MACHINERY-ERROR property={a.prop}: unexpected exception", file=sys.stderr)
        return 2


if __name__ == "__main__":
    sys.exit(main())
