"""spec -> code: replay TLC-generated behaviours of ArrayProgram.tla into the real library.

For every behaviour (program) and every chunk-grid variant the driver builds the
real dask_array collections action by action, computes every new collection and
compares the projection (shape, kind/dtype, values) with the denotation the
specification predicted (env).  NumPy runs the same program as a second oracle:
spec != NumPy is a machinery error (the spec mis-transcribes NumPy), never a
violation.
"""
from __future__ import annotations

import itertools
import json
import math
import os
import random
import warnings

import numpy as np

from . import tlc

KIND_DTYPE = {"i": np.int64, "f": np.float64, "b": np.bool_, "n": np.float64, "m": np.float64, "c": np.int64}


MUTANT = None  # set only by binding_selftest
MAPBLOCKS_INFER_META = False   # C29: map_blocks without dtype (meta inference calls the user function)


class SpecMismatch(Exception):
    """spec and NumPy disagree: machinery error"""


# ------------------------------------------------------------------ values
def env_to_np(e):
    if e["kind"] == "err":
        return None
    shape = tuple(e["shape"])
    k = e["kind"]
    if k == "f":
        data = [(float("nan") if d == 0 else n / d) for n, d in e["data"]]
        return np.array(data, dtype=np.float64).reshape(shape)
    return np.array(e["data"], dtype=KIND_DTYPE[k]).reshape(shape)


def kind_of(dtype):
    dtype = np.dtype(dtype)
    if dtype.kind == "b":
        return "b"
    if dtype.kind in "iu":
        return "i"
    if dtype.kind == "f":
        return "f"
    return dtype.kind


def same_values(a, b, kind):
    a = np.asarray(a)
    b = np.asarray(b)
    if a.shape != b.shape:
        return False
    if kind == "f" or a.dtype.kind == "f" or b.dtype.kind == "f":
        return bool(np.allclose(a.astype("f8"), b.astype("f8"), rtol=1e-9, atol=1e-12, equal_nan=True))
    return bool(np.array_equal(a, b))


def src_array(act):
    shape = tuple(act["shape"])
    n = int(np.prod(shape)) if shape else 1
    salt = act["salt"]
    k = np.arange(1, n + 1)
    if act["kind"] == "i":
        data = (k - 1 + salt).astype(np.int64)
    elif act["kind"] == "f":
        data = (2 * (k - 1) + 1 + 2 * salt) / 2.0
    elif act["kind"] == "n":
        data = np.where(k % 4 == 2, np.nan, (2 * ((k - 1) % 5) + 1 + 2 * salt) / 2.0)
    elif act["kind"] == "c":
        data = np.full(n, 3 + salt)
    elif act["kind"] == "m":
        data = np.where((k * 7) % 5 < 3, np.nan, (2 * ((k - 1) % 5) + 1 + 2 * salt) / 2.0)
    else:
        data = (((k + salt) * 3) % 5 < 2)
    return np.asarray(data).reshape(shape).astype(KIND_DTYPE[act["kind"]])


# ------------------------------------------------------------------ index helpers
def py_index(idx):
    out = []
    for e in idx:
        if e["k"] == "slice":
            f = lambda v: None if v == 99 else v
            out.append(slice(f(e["start"]), f(e["stop"]), f(e["step"])))
        elif e["k"] == "int":
            out.append(int(e["i"]))
        elif e["k"] == "none":
            out.append(None)
        else:
            raise ValueError(e)
    return tuple(out)


BIN = {"add": "add", "sub": "subtract", "mul": "multiply", "maximum": "maximum", "minimum": "minimum", "lt": "less",
       "le": "less_equal", "eq": "equal", "ne": "not_equal", "logical_and": "logical_and", "logical_or": "logical_or"}
UN = {"negative": "negative", "abs": "abs", "logical_not": "logical_not", "square": "square"}


def scalar_of(act):
    if act["skind"] == "f":
        n, d = act["scalar"]
        return n / d
    return int(act["scalar"])


def apply_action(mod, act, env, lib):
    """Apply one action with module `mod` (numpy or dask_array) on handles in env (1-based list).

    lib: "np" | "da".  Returns the new array (or raises)."""
    a = act["a"]
    X = lambda k="x": env[act[k] - 1]
    if a == "Index":
        if lib == "da" and MUTANT == "negative-step-ignored":     # negative control (never set in a real run)
            return X()[tuple(slice(e.start, e.stop, None) if isinstance(e, slice) and e.step == -1 else e for e in py_index(act["idx"]))]
        return X()[py_index(act["idx"])]
    if a == "Elemwise":
        f = getattr(mod, BIN[act["op"]])
        if act["y"]:
            return f(X(), env[act["y"] - 1])
        s = scalar_of(act)
        return f(s, X()) if act["swap"] else f(X(), s)
    if a == "Unary":
        return getattr(mod, UN[act["op"]])(X())
    if a == "AsType":
        return X().astype(KIND_DTYPE[act["kind"]])
    if a == "Transpose":
        return mod.transpose(X(), [p - 1 for p in act["perm"]])
    if a == "Reshape":
        return mod.reshape(X(), tuple(act["shape"]))
    if a == "ExpandDims":
        return mod.expand_dims(X(), act["pos"] - 1)
    if a == "Squeeze":
        return mod.squeeze(X(), axis=act["axis"] - 1)
    if a == "Flip":
        if lib == "da" and MUTANT == "flip-is-identity":  # negative control of the binding (never set in a real run)
            return X()
        return mod.flip(X(), act["axis"] - 1)
    if a == "Roll":
        return mod.roll(X(), act["shift"], axis=act["axis"] - 1)
    if a == "Concat":
        return mod.concatenate([env[h - 1] for h in act["xs"]], axis=act["axis"] - 1)
    if a == "Stack":
        return mod.stack([env[h - 1] for h in act["xs"]], axis=act["pos"] - 1)
    if a == "Rechunk":
        if lib == "np":
            return X()
        return X().rechunk(tuple(tuple(c) for c in act["chunks"]))
    if a == "RechunkNan":
        if lib == "np":
            return X()
        x = X()
        tgt = []
        for ch in x.chunks:
            if any(isinstance(c, float) and math.isnan(c) for c in ch):
                tgt.append((np.nan,) * {"one": 1, "more": len(ch) + 1, "same": len(ch)}[act["mode"]])
            else:
                tgt.append(tuple(ch))
        return x.rechunk(tuple(tgt))
    if a == "Reduce":
        op = act["op"]
        axes = tuple(b - 1 for b in act["axes"])
        kw = {}
        if op in ("argmin", "argmax", "nanargmin", "nanargmax"):
            axis = axes[0]
        else:
            axis = axes
        if op in ("count_nonzero", "ptp"):
            return getattr(mod, op)(X(), axis=axis)
        kw["keepdims"] = bool(act["keepdims"])
        if lib == "da" and act["split_every"]:
            kw["split_every"] = {0: 2, 1: 3} if act["split_every"] == 23 else act["split_every"]
        with warnings.catch_warnings():
            warnings.simplefilter("ignore")
            if lib == "da" and MUTANT == "reduce-drops-last-block":      # negative control (never set in a real run)
                x = X()
                ax0 = axes[0]
                if x.numblocks[ax0] > 1:
                    sl = [slice(None)] * x.ndim
                    sl[ax0] = slice(0, x.shape[ax0] - x.chunks[ax0][-1])
                    return getattr(mod, op)(x[tuple(sl)], axis=axis, **kw)
            return getattr(mod, op)(X(), axis=axis, **kw)
    if a == "ArgFlat":
        kw = {}
        if lib == "da" and act["split_every"]:
            kw["split_every"] = act["split_every"]
        return getattr(mod, act["op"])(X(), **kw)
    if a == "Cumulative":
        kw = {"axis": act["axis"] - 1}
        if lib == "da":
            kw["method"] = act["method"]
            if MUTANT == "cumsum-per-block":                   # negative control (never set in a real run)
                return X().map_blocks(lambda b: np.cumsum(b, axis=act["axis"] - 1), dtype=X().dtype)
        return getattr(mod, act["op"])(X(), **kw)
    if a == "Diff":
        return mod.diff(X(), axis=act["axis"] - 1)
    if a == "Where":
        return mod.where(env[act["c"] - 1], X(), env[act["y"] - 1])
    if a == "Take":
        ix = (slice(None),) * (act["axis"] - 1) + (list(act["list"]),)
        if not act["list"]:
            ix = (slice(None),) * (act["axis"] - 1) + (np.array([], dtype=np.int64),)
        return X()[ix]
    if a == "BroadcastTo":
        return mod.broadcast_to(X(), tuple(act["shape"]))
    if a == "SlidingWindow":
        if lib == "np":
            return np.lib.stride_tricks.sliding_window_view(X(), act["window"], axis=act["axis"] - 1)
        return mod.sliding_window_view(X(), act["window"], axis=act["axis"] - 1)
    if a == "WindowReduce":
        if lib == "np":
            v = np.lib.stride_tricks.sliding_window_view(X(), act["window"], axis=act["axis"] - 1)
        else:
            v = mod.sliding_window_view(X(), act["window"], axis=act["axis"] - 1)
        with warnings.catch_warnings():
            warnings.simplefilter("ignore")
            return getattr(mod, act["op"])(v, axis=-1)
    if a == "Dot":
        return mod.tensordot(X(), env[act["y"] - 1], axes=1)
    if a == "Pad":
        x = X()
        pw = [(0, 0)] * x.ndim
        pw[act["axis"] - 1] = (act["before"], act["after"])
        if act["mode"] == "udf":
            def udf(vector, iaxis_pad_width, iaxis, kwargs):
                # np.pad's contract: the callable edits its vector IN PLACE (pads set, data part rescaled)
                lo, hi = iaxis_pad_width
                n = vector.shape[0]
                vector[lo:n - hi] *= 2
                vector[:lo] = 7
                if hi:
                    vector[n - hi:] = 7
                return vector        # dask_array (like dask) uses the return value; NumPy ignores it

            return mod.pad(x, pw, udf)
        return mod.pad(x, pw, mode=act["mode"])
    if a == "Repeat":
        return mod.repeat(X(), act["reps"], axis=act["axis"] - 1)
    if a == "Tile":
        x = X()
        reps = [1] * x.ndim
        reps[act["axis"] - 1] = act["reps"]
        return mod.tile(x, reps)
    if a == "TopK":
        if lib == "np":
            x = np.sort(X(), axis=-1)
            k = act["k"]
            return x[..., ::-1][..., :k] if k > 0 else x[..., : -k]
        return mod.topk(X(), act["k"])
    if a == "RechunkSpec":
        if lib == "np":
            return X()
        return X().rechunk(rechunk_spec(act), balance=bool(act["balance"]))
    if a == "MapBlocks":
        ax = act["axis"] - 1
        x = X()
        if lib == "np":
            shp = [1] * x.ndim
            shp[ax] = x.shape[ax]
            return (x.astype(np.int64) if x.dtype == bool else x) + np.arange(x.shape[ax]).reshape(shp)
        fn = make_blockfn(ax, act["use"], tuple(tuple(c) for c in x.chunks), x.ndim)
        if MAPBLOCKS_INFER_META:
            out = x.map_blocks(fn)          # no dtype: dask_array has to infer the meta by calling fn on an empty block
        else:
            out = x.map_blocks(fn, dtype=np.int64 if x.dtype == bool else x.dtype)
        out._verif_blockfn = fn
        return out
    if a == "MapBlocks2":
        x, y, dax = X(), env[act["y"] - 1], act["drop"] - 1
        if lib == "np":
            return x.sum(axis=dax) + (y if dax == 0 else y.sum())
        if tuple(y.chunks[0]) != tuple(x.chunks[1]):
            # map_blocks pairs blocks by index and does not align its inputs (dask does not either): the call is only
            # meaningful when the shared axis is chunked alike, so the program aligns the operand first
            y = y.rechunk((x.chunks[1],))
        fn = make_blockfn2(dax, [tuple(tuple(c) for c in x.chunks), tuple(tuple(c) for c in y.chunks)])
        out = mod.map_blocks(fn, x, y, drop_axis=dax, dtype=x.dtype)
        out._verif_blockfn2 = fn
        return out
    if a == "Einsum":
        return mod.einsum(act["pattern"], X(), env[act["y"] - 1])
    if a == "MapPlain":
        fn = act.get("fn", "double")
        if lib == "np":
            return X() * 2 if fn != "npround" else np.round(X())
        return X().map_blocks({"double": block_double, "npround": np.round, "borrowed": block_borrowed}[fn], dtype=X().dtype)
    if a == "BlockFirst":
        x = X()
        if lib == "np":
            out = np.array(x, copy=True)
            cuts = [np.cumsum([0] + list(c)) for c in act["_chunks"]]
            if act["mode"] == "half":
                return np.concatenate([block_half(x[int(lo):int(hi)]) for lo, hi in zip(cuts[0][:-1], cuts[0][1:])] or [x[:0]])
            for bi in itertools.product(*[range(len(c) - 1) for c in cuts]):
                sl = tuple(slice(int(c[j]), int(c[j + 1])) for c, j in zip(cuts, bi))
                out[sl] = block_first(x[sl])
            return out
        if act["mode"] == "half":
            return x.map_blocks(block_half, chunks=(tuple((int(c) + 1) // 2 for c in x.chunks[0]),), dtype=x.dtype)
        return x.map_blocks(block_first, dtype=x.dtype)
    if a == "MaskSelect":
        x = X()
        return x[x > act["thresh"]]
    if a == "Unknown":
        return getattr(mod, act["op"])(X())
    if a == "Random":
        return make_random(mod, act)
    if a == "Overlap":
        ax, r, mode = act["axis"] - 1, act["depth"], act["boundary"]
        x = X()

        def stencil(b):
            # a LOCAL function of radius r: edge-clamped inside whatever block it is given
            pw = [(0, 0)] * b.ndim
            pw[ax] = (r, r)
            p = np.pad(b, pw, mode="edge") if b.shape[ax] > 0 else b
            n = b.shape[ax]
            sl = lambda lo: tuple(slice(lo, lo + n) if q == ax else slice(None) for q in range(b.ndim))
            return p[sl(0)] + p[sl(r)] + p[sl(2 * r)] if n > 0 else b

        if lib == "np":
            npmode = {"reflect": "symmetric", "periodic": "wrap", "nearest": "edge", "none": "edge", "constant": "constant"}[mode]
            pw = [(0, 0)] * x.ndim
            pw[ax] = (r, r)
            p = np.pad(x, pw, mode=npmode)
            n = x.shape[ax]
            sl = lambda lo: tuple(slice(lo, lo + n) if q == ax else slice(None) for q in range(x.ndim))
            return p[sl(0)] + p[sl(r)] + p[sl(2 * r)]
        depth = {q: (r if q == ax else 0) for q in range(x.ndim)}
        boundary = {q: ({"constant": 0}.get(mode, mode) if q == ax else "none") for q in range(x.ndim)}
        return x.map_overlap(stencil, depth=depth, boundary=boundary, dtype=x.dtype)
    if a == "Diagonal":
        return mod.diagonal(X(), offset=act["offset"], axis1=act["axis1"] - 1, axis2=act["axis2"] - 1)
    if a == "StackMismatch":
        return mod.stack([env[h - 1] for h in act["xs"]], axis=0)
    if a == "AdvIndex":
        x = X()
        m = act["mode"]
        if m == "mask":
            mask = np.array(act["mask"], dtype=bool)
            if lib == "da" and act["lib"] == "da":
                mask = mod.from_array(mask, chunks=x.chunks[act["axis"] - 1])
            return x[(slice(None),) * (act["axis"] - 1) + (mask,)]
        if m == "intarr":
            ix = np.array(act["list"], dtype=np.int64)
            if lib == "da" and act["lib"] == "da":
                ix = mod.from_array(ix, chunks=2)
            return x[(slice(None),) * (act["axis"] - 1) + (ix,)]
        if m == "vindex":
            tup = tuple(list(l) if l else slice(None) for l in act["lists"])
            return x.vindex[tup] if lib == "da" else x[tup]
        if m == "ellipsis":
            e = py_index([act["elem"]])[0]
            return x[(..., e)] if act["where"] == "back" else x[(e, ...)]
        raise KeyError(m)
    if a == "Persist":
        if lib == "np":
            return X()
        import dask

        e = act["entry"]
        if e in ("dask.persist", "dask.optimize"):
            # known finding F01: where dask's generic path does not build x's own graph these two entry points are already
            # broken; follow-on operations are explored only where they work (the entry points themselves are judged by C05 (a))
            from dask.base import collections_to_expr

            from dask_array._new_collection import new_collection

            x0 = X()
            try:
                same = set(collections_to_expr([new_collection(x0.expr)]).__dask_graph__()) == set(new_collection(x0.expr).__dask_graph__())
            except Exception:
                same = False
            if not same:
                raise NotImplementedError("F01: dask's generic optimizer path does not build this collection's own graph")
        if e == "x.persist":
            return X().persist(scheduler="sync")
        if e == "dask.persist":
            return dask.persist(X(), scheduler="sync")[0]
        if e == "dask.optimize":
            return dask.optimize(X())[0]
        if e == "x.optimize":
            return X().optimize()
        raise KeyError(e)
    raise KeyError(a)


def make_random(da, act, seed_offset=0):
    """a seeded random dask_array collection (lib 'da' only; the NumPy side uses the realized values)"""
    shape = tuple(act["shape"])
    chunks = tuple(tuple(c) for c in act["chunks"])
    seed = act["seed"] + seed_offset
    if act["gen"] == "RandomState":
        rs = da.random.RandomState(seed)
        f = {"randint": lambda: rs.randint(0, 50, size=shape, chunks=chunks), "poisson": lambda: rs.poisson(3.0, size=shape, chunks=chunks),
             "normal": lambda: rs.normal(1.0, 2.0, size=shape, chunks=chunks), "uniform": lambda: rs.uniform(-1.0, 1.0, size=shape, chunks=chunks),
             "random": lambda: rs.random_sample(size=shape, chunks=chunks)}[act["dist"]]
    else:
        rg = da.random.default_rng(seed)
        f = {"randint": lambda: rg.integers(0, 50, size=shape, chunks=chunks), "poisson": lambda: rg.poisson(3.0, size=shape, chunks=chunks),
             "normal": lambda: rg.normal(1.0, 2.0, size=shape, chunks=chunks), "uniform": lambda: rg.uniform(-1.0, 1.0, size=shape, chunks=chunks),
             "random": lambda: rg.random(size=shape, chunks=chunks)}[act["dist"]]
    return f()


def _sval(v, kind):
    if kind == "f":
        return v[0] / v[1]
    return bool(v) if kind == "b" else int(v)


def rechunk_spec(act):
    def one(e):
        return {"int": lambda: int(e["v"]), "full": lambda: -1, "keep": lambda: None, "auto": lambda: "auto"}[e["k"]]()

    spec = [one(e) for e in act["spec"]]
    if act["form"] == "scalar":
        return spec[0]
    if act["form"] == "dict":
        return {i: v for i, v in enumerate(spec) if v is not None}
    return tuple(spec)


def block_first(block):
    """grid-dependent block function (BlockFirst action): subtract the block's first element"""
    return block - block.ravel()[0] if block.size else block


def make_blockfn2(dax, snaps):
    """two-input block function for MapBlocks2: records, for every invocation, the block of each input it was handed and
    the block_info entry that is supposed to describe it"""
    calls = []

    def fn(a, b, block_info=None):
        if block_info is not None and 0 in block_info and 1 in block_info:
            rec = {"inputs": []}
            for q, blk in ((0, a), (1, b)):
                bi = block_info[q]
                rec["inputs"].append({"shape": [int(v) for v in np.shape(blk)],
                                      "info": {"chunk_location": [int(v) for v in bi["chunk-location"]],
                                               "array_location": [[int(lo), int(hi)] for lo, hi in bi["array-location"]],
                                               "num_chunks": [int(v) for v in bi["num-chunks"]], "shape": [int(v) for v in bi["shape"]]}})
            calls.append(rec)
        return a.sum(axis=dax) + (b if dax == 0 else b.sum())

    fn.calls = calls
    fn.snaps = snaps
    return fn


def block_double(block):
    """grid-independent block function (MapPlain action)"""
    return block * 2


def _borrowed():
    import functools

    @functools.wraps(np.round)
    def wrapper(block):
        return np.round(block) * 2

    return wrapper


# carries numpy.round's __module__ / __qualname__ / __name__ without being numpy.round
block_borrowed = _borrowed()


def block_half(block):
    """block function declared with explicit chunks= (BlockFirst mode "half"): the first half (rounded up) of a 1-D block"""
    return block[: (block.shape[0] + 1) // 2]


def make_blockfn(ax, use, chunks_at_call, ndim):
    """block function for the MapBlocks action: adds to every element its global position along `ax`, derived from the
    block_info / block_id it is GIVEN (never from anything else), and logs every invocation."""
    calls = []
    iolog = []

    def start_from_id(block_id):
        return int(sum(chunks_at_call[ax][: block_id[ax]]))

    def body(block, block_info, block_id):
        from .iosrc import PHASE

        rec = {"shape": [int(v) for v in np.shape(block)]}
        iolog.append({"e": "call", "size": int(np.size(block)), "phase": PHASE[0]})
        start = None
        if block_info is not None:
            bi = block_info[0]
            rec["info"] = {"chunk_location": [int(v) for v in bi["chunk-location"]],
                           "array_location": [[int(lo), int(hi)] for lo, hi in bi["array-location"]],
                           "chunk_shape": [int(v) for v in bi["chunk-shape"]] if "chunk-shape" in bi else [], "num_chunks": [int(v) for v in bi["num-chunks"]],
                           "shape": [int(v) for v in bi["shape"]]}
            start = int(bi["array-location"][ax][0])
        if block_id is not None:
            rec["block_id"] = [int(v) for v in block_id]
            if start is None:
                start = start_from_id(block_id)
        if start is None:          # called without layout information (meta inference on an empty block)
            start = 0
        else:
            calls.append(rec)
        shp = [1] * ndim
        shp[ax] = np.shape(block)[ax]
        b = block.astype(np.int64) if block.dtype == bool else block
        return b + (np.arange(np.shape(block)[ax]) + start).reshape(shp)

    if use == "block_info":
        def fn(block, block_info=None):
            return body(block, block_info, None)
    elif use == "block_id":
        def fn(block, block_id=None):
            return body(block, None, block_id)
    else:
        def fn(block, block_info=None, block_id=None):
            return body(block, block_info, block_id)
    fn.calls = calls
    fn.iolog = iolog
    fn.chunks_at_call = chunks_at_call
    return fn


def _set_numpy_limit(nbytes):
    """configuration scaling: the 64 MiB threshold below which a sliced NumPy source is copied eagerly is a module
    constant; lowering it reaches the deferred-region path with tiny arrays (None restores the default)"""
    import dask_array.io._from_array as fa

    if not hasattr(fa, "_NUMPY_SLICE_PUSHDOWN_NBYTES_LIMIT"):
        raise tlc.MachineryError("dask_array.io._from_array._NUMPY_SLICE_PUSHDOWN_NBYTES_LIMIT disappeared (refactored?)")
    if not hasattr(fa, "_verif_default_limit"):
        fa._verif_default_limit = fa._NUMPY_SLICE_PUSHDOWN_NBYTES_LIMIT
    fa._NUMPY_SLICE_PUSHDOWN_NBYTES_LIMIT = fa._verif_default_limit if nbytes is None else nbytes


def make_source(da, arr, grid, spec, ctx):
    """The dask_array collection over a source.  spec None: from_array over the NumPy array.  Otherwise a dict:
    kind 'numpy' | 'rec' (recording array-like) | 'rec-grid' (with a storage grid = the chunk grid's maximal sizes),
    wrap 'from_array' | 'asarray' | 'asanyarray', lock (bool), fancy (bool), getitem (bool: custom getter)"""
    _set_numpy_limit((spec or {}).get("numpy_limit"))
    if not spec:
        return da.from_array(arr, chunks=grid)
    from . import iosrc

    src = arr
    if spec.get("kind", "numpy") != "numpy":
        view = spec.get("view")
        if view == "structured":
            # the same data behind a structured dtype with one field; the program works on the field (C29: metadata of
            # structured / record sources has to come from the dtype, not from a probe of the data)
            arr = arr.view([("v", arr.dtype.str)])
        src = iosrc.RecordingSource(arr, grid=grid if spec["kind"] == "rec-grid" else None)
        ctx.setdefault("rec_src", []).append(src)
        if view == "structured":
            return da.from_array(src, chunks=grid)["v"]
    wrap = spec.get("wrap", "from_array")
    if wrap == "asarray":
        return da.asarray(src)
    if wrap == "asanyarray":
        return da.asanyarray(src)
    kw = {}
    if spec.get("lock"):
        lock = iosrc.CountingLock()
        ctx.setdefault("locks", []).append(lock)
        kw["lock"] = lock
    if spec.get("fancy") is False:
        kw["fancy"] = False
    if spec.get("getitem"):
        glog = []
        ctx.setdefault("getitem_logs", []).append(glog)
        kw["getitem"] = iosrc.custom_getitem(glog)
    return da.from_array(src, chunks=grid, **kw)


def apply_inplace(act, env, lib, np_env=None):
    """In-place actions.  lib 'da': mutates env[x-1] (the collection object) and returns it;
    lib 'np': returns the new array (NumPy copy semantics: derived arrays are never views here)."""
    a = act["a"]
    t = env[act["x"] - 1]
    kind = kind_of(t.dtype)
    if lib == "da" and MUTANT == "inplace-noop":   # negative control of the binding (never set in a real run)
        return t
    if a == "SetItem":
        v = _sval(act["scalar"], kind) if act["vkind"] == "scalar" else env[act["y"] - 1]
        if lib == "np":
            out = np.array(t, copy=True)
            out[py_index(act["idx"])] = v
            return out
        t[py_index(act["idx"])] = v
        return t
    if a == "MaskSet":
        v = _sval(act["scalar"], kind)
        if lib == "np":
            out = np.array(t, copy=True)
            out[out > act["thresh"]] = v
            return out
        mask = (t > act["thresh"]) if act["masklib"] == "da" else (np.asarray(np_env[act["x"] - 1]) > act["thresh"])
        t[mask] = v
        return t
    if a == "OutUfunc":
        f = np.add if act["op"] == "add" else np.multiply
        if "where" in act:
            src = env[act["y"] - 1]
            if lib == "np":
                out = np.array(t, copy=True)
                f(src, act["scalar"], where=src > act["where"], out=out)
                return out
            f(src, act["scalar"], where=src > act["where"], out=t)
            return t
        other = env[act["y"] - 1] if act["y"] else act["scalar"]
        if lib == "np":
            return f(t, other)
        f(t, other, out=t)
        return t
    if a == "ComputeChunkSizes":
        if lib == "np":
            return t
        t.compute_chunk_sizes()
        return t
    raise KeyError(a)


INPLACE = {"SetItem", "MaskSet", "OutUfunc", "ComputeChunkSizes"}


# ------------------------------------------------------------------ behaviours
def parse_behaviours(res: tlc.TLCResult):
    seen = set()
    out = []
    for r in res.records():
        if "prog" not in r:
            continue
        key = json.dumps(r["prog"], sort_keys=True)
        if key in seen:
            continue
        seen.add(key)
        out.append(r)
    return out


def variants(beh, max_variants, rng):
    """chunk-grid variants: one grid per source (cartesian product, sampled when large)"""
    srcs = [a for a in beh["prog"] if a["a"] == "Source"]
    lists = [a["grids"] for a in srcs]
    total = 1
    for l in lists:
        total *= len(l)
    if total <= max_variants:
        return list(itertools.product(*lists))
    out = []
    for _ in range(max_variants):
        out.append(tuple(rng.choice(l) for l in lists))
    return out


class Outcome:
    __slots__ = ("violations", "machinery", "n_programs", "n_computes", "stats", "events")

    def __init__(self):
        self.violations = []  # (case, clause)
        self.machinery = []
        self.n_programs = 0
        self.n_computes = 0
        self.stats = {}
        self.events = []


def spec_value(arr, max_den=5000):
    """NumPy value -> the representation of NdArray.tla ([shape, kind, data]); floats become exact small
    rationals <<num, den>> (den = 0: NaN; den = -1: no small rational within 1e-9, never equal to a denotation)."""
    from fractions import Fraction

    a = np.asarray(arr)
    k = kind_of(a.dtype)
    flat = a.ravel().tolist()
    if k == "f":
        data = []
        for v in flat:
            if v != v:
                data.append([0, 0])
            elif v in (float("inf"), float("-inf")):
                data.append([1 if v > 0 else -1, -1])
            else:
                fr = Fraction(v).limit_denominator(max_den)
                if abs(float(fr) - v) <= 1e-9 * max(1.0, abs(v)) and abs(fr.numerator) < 2 ** 20:
                    data.append([fr.numerator, fr.denominator])
                elif abs(v) < 1000:
                    # no small rational (e.g. a random draw): fixed-point form, compared by plain equality of the pair
                    data.append([int(round(v * QUANT)), QUANT])
                else:
                    data.append([int(max(min(v, 1e6), -1e6)), -1])
    elif k in ("b", "i"):
        data = [int(v) for v in flat]
        if any(abs(v) >= 2 ** 31 for v in data):
            data = [max(min(v, 2 ** 31 - 1), -(2 ** 31 - 1)) for v in data]
    else:
        # not a numeric array (object / string results of a mis-executed graph): never equal to a denotation
        return {"shape": [int(x) for x in a.shape], "kind": "o", "data": [], "repr": repr(flat[:6])[:120]}
    return {"shape": [int(x) for x in a.shape], "kind": k, "data": data}


QUANT = 1000000
RAISED = {"shape": [], "kind": "raised", "data": []}


def replay_one(beh, grids, observers=(), compute_all=True, opts=None, emit=None):
    """Replay one behaviour with one grid per source.  Returns list of (clause, detail)."""
    import dask

    import dask_array as da

    prog = beh["prog"]
    env = beh["env"]
    np_env, da_env = [], []
    problems = []
    gi = 0
    cur = []        # handle -> expected current denotation (in-place actions replace an entry)
    env = list(env)          # random programs overwrite placeholder denotations with realized ones
    ctx = {"prog": prog, "grids": [list(map(list, g)) for g in grids], "da_env": da_env, "np_env": np_env, "env": env,
           "opts": opts or {}, "emit": emit if emit is not None else [], "cur": cur}
    last = len(prog) - 1
    last_only = bool((opts or {}).get("last_only"))
    from . import iosrc

    for k, act in enumerate(prog):
        exp = env[k]
        iosrc.set_phase("constructing")
        if act["a"] == "Source":
            arr = src_array(act)
            want = env_to_np(exp)
            if not same_values(arr, want, exp["kind"]):
                raise SpecMismatch(f"source data differs from spec: {act}")
            np_env.append(arr)
            cur.append(exp)
            g = tuple(tuple(c) for c in grids[gi])
            gi += 1
            user_src = arr.copy()       # the array "the user passed in": must never change (C10, C11)
            ctx.setdefault("np_src", []).append(user_src)
            if act["kind"] == "c":
                # a creation array with a user-pinned name; the name is a function of everything that determines the content
                d = da.full(tuple(act["shape"]), 3 + act["salt"], chunks=g, dtype="i8",
                            name="pinned-%d-%s-%s" % (act["salt"], "x".join(map(str, act["shape"])), abs(hash(g)) % 10 ** 8))
            else:
                d = make_source(da, user_src, g, (opts or {}).get("source"), ctx)
            da_env.append(d)
            if not last_only:
                for ob in observers:
                    ob(ctx, k, act, d, arr, problems)
            continue
        if act["a"] == "Random":
            # the specification cannot predict a realization: the first computed value of the base IS the realization,
            # and from here on every collection of this program is judged against NumPy applied to it
            try:
                with warnings.catch_warnings():
                    warnings.simplefilter("ignore")
                    d = make_random(da, act)
                    iosrc.set_phase("executing")
                    real = np.asarray(d.compute(scheduler="sync"))
            except Exception as ex:  # noqa
                problems.append(("raised", f"action {k} Random: {type(ex).__name__}: {ex}"))
                break
            ctx["random"] = True
            env[k] = spec_value(real)
            np_env.append(real.copy())
            cur.append(env[k])
            da_env.append(d)
            ctx.setdefault("random_bases", []).append((k, act, d, real.copy()))
            if tuple(real.shape) != tuple(act["shape"]) or tuple(d.chunks) != tuple(tuple(c) for c in act["chunks"]):
                problems.append(("shape", f"action {k} Random: shape {real.shape} chunks {d.chunks}, requested {act['shape']} {act['chunks']}"))
            if not last_only or k == last:
                for ob in observers:
                    ob(ctx, k, act, d, real, problems)
            continue
        if act.get("placeholder"):
            # a grid-dependent operation: the reference is NumPy applied per ADVERTISED block of the operand
            ctx["random"] = True
            if any(c != c for cs in da_env[act["x"] - 1].chunks for c in cs):
                problems.append(("declined", f"action {k}: operand has unknown chunk sizes: no reference grid"))
                break
            act = dict(act, _chunks=[list(map(int, c)) for c in da_env[act["x"] - 1].chunks])
        expect_err = exp["kind"] == "err"
        inplace = act["a"] in INPLACE
        n0 = len(problems)
        # ---- NumPy (second oracle)
        np_err = None
        try:
            with warnings.catch_warnings():
                warnings.simplefilter("ignore")
                nv = apply_inplace(act, np_env, "np") if inplace else apply_action(np, act, np_env, "np")
                if isinstance(nv, np.ndarray) and nv.base is not None:
                    nv = nv.copy()      # the specification has copy semantics: no NumPy views between handles
        except Exception as ex:  # noqa
            np_err = ex
            nv = None
        if ctx.get("random"):
            # placeholder denotations downstream of a random base: NumPy on the realization is the oracle
            expect_err = np_err is not None
            exp = env[k] = ({"shape": [], "data": [], "kind": "err"} if expect_err else spec_value(nv))
        if expect_err != (np_err is not None):
            raise SpecMismatch(f"spec expects error={expect_err} but NumPy raised {np_err!r} for {act}")
        want = env_to_np(exp) if not ctx.get("random") else (None if expect_err else np.asarray(nv))
        if not expect_err and not ctx.get("random"):
            if tuple(np.shape(nv)) != tuple(exp["shape"]) or not same_values(nv, want, exp["kind"]) \
                    or kind_of(np.asarray(nv).dtype) != exp["kind"]:
                raise SpecMismatch(
                    f"spec and NumPy disagree on {act}: spec {exp['kind']} {want!r} vs numpy {np.asarray(nv)!r}")
        np_before = list(np_env)
        if inplace:
            np_env[act["out"] - 1] = nv
            cur[act["out"] - 1] = exp
        else:
            np_env.append(nv)
            cur.append(exp)
        # ---- dask_array
        d = None
        d_err = None
        got = None
        if inplace:
            # an in-place operation that the library refuses at assignment time is a decline, not a violation
            try:
                with warnings.catch_warnings():
                    warnings.simplefilter("ignore")
                    d = apply_inplace(act, da_env, "da", np_before)
            except Exception as ex:  # noqa
                problems.append(("declined", f"action {k}: {type(ex).__name__}: {ex}"))
                break
        try:
            with warnings.catch_warnings():
                warnings.simplefilter("ignore")
                if not inplace:
                    cfg_last = (opts or {}).get("config_last") if k == last else None
                    if cfg_last:
                        # C09: the configuration in effect may change between the construction of an operand and of its consumer
                        import dask

                        with dask.config.set(cfg_last):
                            d = apply_action(da, act, da_env, "da")
                    else:
                        d = apply_action(da, act, da_env, "da")
                    if (opts or {}).get("touch_metadata"):
                        d.chunks, d.dtype       # what a user's repr(d) / d.shape reads: evaluated (and cached) under the configuration in effect NOW
                    if any(d is o for o in da_env):
                        # identity operations (x[:], rechunk to the same chunks) return the very same object; the
                        # specification's handles are distinct collection objects, as after the user's x.copy()
                        d = d.copy()
                if compute_all or expect_err:
                    iosrc.set_phase("executing")
                    got = d.compute(scheduler="sync")
        except NotImplementedError as ex:
            d_err = ex
        except Exception as ex:  # noqa
            d_err = ex
        if not inplace:
            da_env.append(d if d_err is None else None)
        if expect_err:
            # Only indexing is required to raise (C12); where NumPy has no result for another
            # operation the properties say nothing about what dask_array returns.
            if d_err is None and act["a"] in ("Index", "AdvIndex", "StackMismatch"):
                problems.append(("invalid-operation-did-not-raise", f"action {k}: {act} returned {got!r}"))
            # later actions never use an err handle (spec guarantees)
            continue
        if d_err is not None:
            if isinstance(d_err, NotImplementedError):
                problems.append(("declined", f"action {k}: {type(d_err).__name__}: {d_err}"))
                # cannot continue this program: handle missing
                break
            problems.append(("raised", f"action {k} {act['a']}: {type(d_err).__name__}: {d_err}"))
            break
        if got is not None:
            got = np.asarray(got)
            if tuple(got.shape) != tuple(exp["shape"]):
                problems.append(("shape", f"action {k} {act['a']}: computed shape {got.shape}, expected {tuple(exp['shape'])}"))
            elif not same_values(got, want, exp["kind"]):
                clause = "values"
                if act["a"] == "ArgFlat" and got.ndim == 0:
                    flat = np.asarray(np_env[act["x"] - 1]).ravel()
                    if 0 <= int(got) < flat.size and flat[int(got)] == flat[int(want)]:
                        clause = "values-other-occurrence-of-the-extreme-value"
                problems.append((clause, f"action {k} {act['a']}: computed {got.tolist()!r}, expected {want.tolist()!r}"))
            elif got.dtype != np.asarray(nv).dtype:
                problems.append(("dtype", f"action {k} {act['a']}: computed dtype {got.dtype}, NumPy {np.asarray(nv).dtype}"))
            if tuple(d.shape) != tuple(exp["shape"]) and not any(isinstance(s, float) and math.isnan(s) for s in d.shape):
                problems.append(("advertised-shape", f"action {k} {act['a']}: advertised {d.shape}, expected {tuple(exp['shape'])}"))
            if d.dtype != np.asarray(nv).dtype:
                problems.append(("advertised-dtype", f"action {k} {act['a']}: advertised {d.dtype}, NumPy {np.asarray(nv).dtype}"))
            if len(problems) > n0:
                # later expectations would be built on a handle that is already wrong
                break
        if act["a"] == "Rechunk" and d is not None:
            wantc = tuple(tuple(c) for c in act["chunks"])
            if tuple(d.chunks) != wantc:
                problems.append(("rechunk-chunks", f"action {k}: rechunk({wantc}) advertises {d.chunks}"))
        if not last_only or k == last:
            for ob in observers:
                ob(ctx, k, act, d, nv, problems)
    return problems


def failing_action(beh, detail):
    """position, action record and operand shapes of the action a problem was reported for"""
    import re

    m = re.match(r"action (\d+)", detail)
    if not m:
        return {}
    k = int(m.group(1))
    act = beh["prog"][k]
    hs = [act[f] for f in ("x", "y", "c") if isinstance(act.get(f), int) and act.get(f)] + list(act.get("xs", []))
    return {"at": k, "act": act, "operand_shapes": {str(h): list(beh["env"][h - 1]["shape"]) for h in hs}}


def _worker(args):
    behs, observers_path, max_variants, seed, opts = args
    import importlib

    import dask

    # library calls that compute internally (compute_chunk_sizes, persist) must not start thread pools in forked workers
    dask.config.set(scheduler="sync")
    if (opts or {}).get("config"):
        dask.config.set(opts["config"])       # configuration scaling (e.g. a tiny rechunk degree limit) for this corpus run

    obs = []
    for pth in observers_path:
        m, f = pth.rsplit(":", 1)
        obs.append(getattr(importlib.import_module(m), f))
    rng = random.Random(seed)
    out = Outcome()
    global MAPBLOCKS_INFER_META
    MAPBLOCKS_INFER_META = bool((opts or {}).get("infer_meta"))
    for beh in behs:
        for grids in variants(beh, max_variants, rng):
            if (opts or {}).get("only_unit_grids") and any(c != 1 for g in grids for ax in g for c in ax):
                continue
            out.n_programs += 1
            emit = []
            try:
                probs = replay_one(beh, grids, obs, compute_all=not (opts or {}).get("no_compute"), opts=opts, emit=emit)
            except SpecMismatch as ex:
                out.machinery.append(str(ex))
                continue
            nact = sum(1 for a in beh["prog"] if a["a"] != "Source")
            out.n_computes += nact
            for a in beh["prog"]:
                out.stats[a["a"]] = out.stats.get(a["a"], 0) + 1
            for clause, detail in probs:
                case = {"prog": beh["prog"], "env": beh["env"], "grids": [list(map(list, g)) for g in grids], "detail": detail}
                case.update(failing_action(beh, detail))
                out.violations.append((case, clause))
            if emit:
                ref = {"prog": beh["prog"], "env": beh["env"], "grids": [list(map(list, g)) for g in grids]}
                for e in emit:
                    e["_ref"] = ref
                out.events += emit
    return out


_PRELOADED = False


def _preload():
    """import the library (and wrap the rewrite hooks) in the parent, so forked workers inherit loaded modules"""
    global _PRELOADED
    if _PRELOADED:
        return
    import dask  # noqa
    import dask_array  # noqa

    from . import record

    record.install()
    _PRELOADED = True


def run_corpus(behaviours, observers=(), max_variants=8, seed=0, procs=16, opts=None, group=None):
    """Replay all behaviours in parallel worker processes; returns merged Outcome.
    group: key function; behaviours with equal keys are replayed consecutively by ONE worker process (observers that
    relate a program to earlier programs of the same process history)."""
    import multiprocessing as mp

    from .common import chunk_list

    if not behaviours:
        return Outcome()
    _preload()
    if group is not None:
        buckets = {}
        for b in behaviours:
            buckets.setdefault(group(b), []).append(b)
        nparts = procs * 2 if len(behaviours) > procs * 6 else 1
        parts = [[] for _ in range(nparts)]
        for bucket in sorted(buckets.values(), key=len, reverse=True):
            min(parts, key=len).extend(bucket)
        parts = [p for p in parts if p]
    else:
        parts = chunk_list(behaviours, procs * 3 if len(behaviours) > procs * 6 else 1)
    ctx = mp.get_context("fork")
    args = [(p, list(observers), max_variants, seed + i, opts) for i, p in enumerate(parts)]
    if len(parts) == 1:
        outs = [_worker(args[0])]
    else:
        import gc

        # the parent holds large corpora: keep the children's garbage collector from touching (and thereby copying) them
        gc.collect()
        gc.freeze()
        try:
            with ctx.Pool(min(procs, len(parts))) as pool:
                outs = pool.map(_worker, args)
        finally:
            gc.unfreeze()
    merged = Outcome()
    for o in outs:
        merged.violations += o.violations
        merged.machinery += o.machinery
        merged.n_programs += o.n_programs
        merged.n_computes += o.n_computes
        merged.events += o.events
        for k, v in o.stats.items():
            merged.stats[k] = merged.stats.get(k, 0) + v
    return merged


ALL_ACTS = ["Index", "Elemwise", "Unary", "AsType", "Transpose", "Reshape", "ExpandSqueeze", "FlipRoll", "Concat", "Rechunk",
            "Reduce", "ArgReduce", "Cumulative", "Diff", "Where", "Take", "BroadcastTo", "Window", "WindowReduce", "Dot",
            "PadRepeat", "TopK"]


def program_cfg(acts, maxlen, preset, sim, smax=3, idxpad=2, emit_all=False, lean=False, excl=(), acts2=(), acts3=()):
    acts_s = ", ".join(f'"{a}"' for a in acts)
    return (
        "INIT Init\nNEXT Next\nINVARIANT Emit\nINVARIANT WellFormed\nCHECK_DEADLOCK FALSE\nCONSTANTS\n"
        f"  Acts = {{{acts_s}}}\n  Acts2 = {{{', '.join(chr(34) + a + chr(34) for a in acts2)}}}\n  Acts3 = {{{', '.join(chr(34) + a + chr(34) for a in acts3)}}}\n  MaxLen = {maxlen}\n  SrcPreset = \"{preset}\"\n  Sim = {'TRUE' if sim else 'FALSE'}\n"
        f"  SMax = {smax}\n  IdxPad = {idxpad}\n  EmitAll = {'TRUE' if emit_all else 'FALSE'}\n"
        f"  Lean = {'TRUE' if lean else 'FALSE'}\n"
        "  ExclPairs = {" + ", ".join(f'"{a}>{b}"' for a, b in excl) + "}\n"
    )


def _spec_hash():
    import hashlib

    h = hashlib.sha1()
    for m in ("ArrayProgram.tla", "NdArray.tla", "ChunkAlgebra.tla"):
        h.update(open(os.path.join(tlc.SPEC, m), "rb").read())
    return h


class _CachedResult:
    """TLC statistics of a cached generation run (the run happened in setup or in an earlier check)."""

    def __init__(self, d):
        self.__dict__.update(d)


def generate_programs(acts, maxlen, preset, *, sim, num=None, seed=0, smax=3, idxpad=2, emit_all=False, rundir=None,
                      timeout=900, depth=None, lean=False, workers=1, excl=(), cache=True, acts2=(), observe_all=False, acts3=()):
    """Behaviours of ArrayProgram.tla for one configuration.  The output depends only on the specification
    and the configuration, so it is cached under /verif/.cache keyed by their content hash (nothing that touches
    /repo is ever cached)."""
    import pickle

    cfg = program_cfg(acts, maxlen, preset, sim, smax, idxpad, emit_all, lean, excl, acts2, acts3)
    h = _spec_hash()
    h.update(cfg.encode())
    h.update(repr((sim, num, seed, depth)).encode())
    cpath = os.path.join(tlc.CACHE, f"programs-{h.hexdigest()[:20]}.pkl")
    if cache and os.path.exists(cpath):
        try:
            with open(cpath, "rb") as f:
                behs, stats = pickle.load(f)
            return behs, _CachedResult(stats)
        except Exception:
            pass
    if sim:
        res = tlc.run_tlc("ArrayProgram", cfg, simulate=f"num={num}", depth=depth or (maxlen + 3), seed=seed, rundir=rundir,
                          timeout=timeout, heap="3g")
    else:
        res = tlc.run_tlc("ArrayProgram", cfg, rundir=rundir, timeout=timeout, heap="6g", workers=workers)
    tlc.require_clean(res, "ArrayProgram generation")
    behs = parse_behaviours(res)
    if cache:
        stats = dict(distinct=res.distinct, generated=res.generated, coverage=res.coverage, wall=res.wall, depth=res.depth,
                     cached=True)
        tmp = cpath + f".{os.getpid()}.tmp"
        with open(tmp, "wb") as f:
            pickle.dump((behs, stats), f, protocol=4)
        os.replace(tmp, cpath)
    return behs, res


def binding_selftest(behaviours, seed=0):
    """Negative control: replay the Flip programs against a deliberately wrong library call
    (flip = identity).  The replay must report a value mismatch for every flipped axis longer than 1
    whose data is not symmetric; returns (programs, detected)."""
    global MUTANT
    picked = [b for b in behaviours if any(a["a"] == "Flip" for a in b["prog"])][:40]
    MUTANT = "flip-is-identity"
    try:
        out = run_corpus(picked, max_variants=1, seed=seed, procs=1)
    finally:
        MUTANT = None
    return len(picked), len([1 for _, cl in out.violations if cl == "values"])


def binding_selftest_index(rd, seed=0):
    """Negative control for the index checks: x[a:b:-1] replayed as x[a:b:1] must be detected."""
    global MUTANT
    behs, _ = generate_programs(["Index"], 1, "1d", sim=False, smax=1, idxpad=0, emit_all=True, rundir=rd)
    picked = [b for b in behs if b["prog"][-1]["a"] == "Index" and any(e["k"] == "slice" and e["step"] == -1 for e in b["prog"][-1]["idx"])
              and b["prog"][0]["shape"][0] >= 3 and len(b["env"][-1]["data"]) >= 2][:40]
    MUTANT = "negative-step-ignored"
    try:
        out = run_corpus(picked, max_variants=1, seed=seed, procs=1)
    finally:
        MUTANT = None
    return len(picked), len([1 for _, cl in out.violations if cl in ("values", "shape")])


def replay_file(chk, path):
    """--replay: run the recorded program again (same grids) against the current tree."""
    d = json.load(open(path))
    case = d["case"]
    beh = {"prog": case["prog"], "env": case["env"]}
    try:
        probs = replay_one(beh, [tuple(tuple(ax) for ax in g) for g in case["grids"]])
    except SpecMismatch as ex:
        raise tlc.MachineryError(str(ex))
    chk.cov["evaluations"] += 1
    chk.cov["traces_validated_against_impl"] += 1
    chk.cov["rule"] = "replay of one recorded program"
    chk.sample({"prog": case["prog"]})
    for clause, detail in probs:
        if clause == "declined":
            continue
        c = {"prog": beh["prog"], "env": beh["env"], "grids": case["grids"], "detail": detail}
        c.update(failing_action(beh, detail))
        chk.violation(c, clause)
    return chk.finish()
