"""Pre-generate (with TLC) the program corpora of the quick tiers into /verif/.cache, keyed by the content hash of the
specification and the configuration.  Spec-side only: nothing here touches /repo.  Run by setup.sh; every check regenerates
what is missing."""
from __future__ import annotations

import concurrent.futures as cf
import sys
import time

from . import progcheck, replay, tlc

QUICK = ["d1-1d", "d1-2d", "d2-push1", "d2-push2", "d2-push3", "d3-sr1", "d2-lean1", "d2-lean2", "d2-lean3", "d1-win", "d1-rspec",
         "d2-rechunk-after", "d2-rechunk-before", "d1-mapblocks", "d2-above-mapblocks", "d2-win-mapblocks", "d2-below-mapblocks",
         "d3-mapblocks-chain", "d2-unknown-ccs", "d2-unknown-follow", "d3-unknown-ccs-follow", "d3-unknown-ccs-follow2", "d3-inplace-dmd", "d3-inplace-mdm", "d3-inplace-ddm", "d3-inplace-mmd",
         "d2-inplace2", "d2-inplace3", "d2-inplace1-all", "d2-inplace2-all", "d3-persist-follow1", "d2-persist-follow2", "d2-persist-follow3", "d1-reduce-1d", "d1-random", "d2-random", "d3-random", "sim-random", "sim-random-share", "d2-sr2", "d2-sr3", "d3-sr1-all"]


def one(name):
    kw = dict(progcheck.CORPORA[name])
    for k in ("observe_all", "keep", "group", "final_only"):
        kw.pop(k, None)
    kw["workers"] = min(kw.get("workers", 1), 4)
    rd = tlc.new_rundir("pregen")
    t0 = time.time()
    try:
        behs, res = replay.generate_programs(rundir=rd, timeout=3000, **kw)
    finally:
        tlc.cleanup(rd)
    return name, len(behs), round(time.time() - t0, 1), getattr(res, "cached", False)


def quick_corpora():
    """every corpus a quick tier replays (the checks' own `plans`), plus the explicit list above"""
    import importlib
    import pkgutil

    from . import checks

    names = list(QUICK)
    for m in pkgutil.iter_modules(checks.__path__):
        mod = importlib.import_module(f"{checks.__name__}.{m.name}")
        fn = getattr(mod, "plans", None)
        if fn is None:
            continue
        try:
            for p in fn("quick"):
                if p[0] in progcheck.CORPORA and p[0] not in names:
                    names.append(p[0])
        except Exception:
            pass
    return names


def main():
    names = sys.argv[1:] or quick_corpora()
    t0 = time.time()
    with cf.ThreadPoolExecutor(max_workers=4) as ex:
        for name, n, dt, cached in ex.map(one, names):
            print(f"corpus {name}: {n} behaviours ({'cached' if cached else f'generated in {dt}s'})", flush=True)
    print(f"pregen done in {round(time.time() - t0, 1)}s")


if __name__ == "__main__":
    main()
