"""C09: replay a long HISTORY of programs in one process - earlier collections stay alive (singleton registry, shared lowering
cache), and every program is built under one planner configuration and computed under another - and record the values."""
from __future__ import annotations

import collections
import itertools
import random
import warnings

import numpy as np

from . import replay
from .obs_programs import RAISED, fresh, spec_value

KEYS = [
    ("array.optimize-graph", [True, False]),
    ("array.rechunk.threshold", [4, 1]),
    ("array.rechunk.degree-limit", [100, 2]),
    ("array.rechunk.method", [None, "tasks"]),
    ("array.chunk-size", ["128MiB", "64B"]),
    ("array.unify-chunks-policy", ["auto", "coarse", "refine"]),
    ("array.unify-chunks-limit", ["512MiB", "16B"]),
    ("split_every", [16, 2]),
]
CONFIGS = [dict(zip([k for k, _ in KEYS], vals)) for vals in itertools.product(*[v for _, v in KEYS])]


def config_no(n):
    return CONFIGS[n % len(CONFIGS)]


def _val(c, own=False):
    """own=True: compute through the collection object itself, the way a user who keeps `c` around does (its cached
    lowering then stays alive with it); otherwise through a fresh collection over the same expression"""
    try:
        with warnings.catch_warnings():
            warnings.simplefilter("ignore")
            return spec_value(np.asarray((c if own else fresh(c)).compute(scheduler="sync")))
    except Exception as ex:
        return dict(RAISED, err=f"{type(ex).__name__}: {str(ex)[:160]}")


def worker(args):
    behs, max_variants, seed, opts = args
    import dask

    dask.config.set(scheduler="sync")
    rng = random.Random(seed)
    ring = collections.deque(maxlen=opts.get("ring", 200))      # (collection, expected denotation, label) of earlier programs
    out = replay.Outcome()
    n = seed * 7919
    pols = ["auto", "coarse", "refine"]
    pairs = [(a, b) for a in pols for b in pols if a != b] if opts.get("policy_pairs") else [None]
    for beh in behs:
      for grids in replay.variants(beh, max_variants, rng):
        for pair in pairs:
            n += 1
            out.n_programs += 1
            cfg_build, cfg_compute = config_no(n * 5 + 1), config_no(n * 11 + 3)
            ctx_holder = {}

            def grab(ctx, k, act, d, nv, problems, holder=ctx_holder):
                holder["ctx"] = ctx

            # every third program: the last operation is CONSTRUCTED under B as well (the configuration in effect at
            # construction differs between an operand and its consumer)
            split = (pair is not None or n % 3 == 0) and not any(a["a"] in replay.INPLACE for a in beh["prog"][-1:])
            if split:
                # B differs from A in the chunk-unification policy only (what an operand advertised under A is what
                # its consumer plans against under B); the other keys vary in the two programs out of three built whole
                cfg_compute = dict(cfg_build)
                if pair is not None:        # directed corpora: every ordered pair of policies
                    cfg_build = dict(cfg_build, **{"array.unify-chunks-policy": pair[0]})
                    cfg_compute = dict(cfg_build, **{"array.unify-chunks-policy": pair[1]})
                else:
                    cfg_compute["array.unify-chunks-policy"] = pols[(pols.index(cfg_build["array.unify-chunks-policy"]) + 1 + (n // 3) % 2) % 3]
            try:
                with dask.config.set(cfg_build):
                    replay.replay_one(beh, grids, (grab,), compute_all=False, opts={"config_last": cfg_compute, "touch_metadata": True} if split else {"touch_metadata": n % 2 == 0})
            except replay.SpecMismatch as ex:
                out.machinery.append(str(ex))
                continue
            ctx = ctx_holder.get("ctx")
            if ctx is None:
                continue
            live = [(h, c) for h, c in enumerate(ctx["da_env"]) if c is not None and ctx["cur"][h]["kind"] != "err"]
            if not live:
                continue
            h, d = live[-1]
            exp = ctx["cur"][h]
            obs = []
            # another collection of the same program (it shares the source and sub-trees with the last one): its value
            # before and after the last collection is computed (computing must not change what other collections denote)
            sib = live[0] if len(live) >= 2 and live[0][1] is not d else None
            if sib is not None:
                with dask.config.set(cfg_compute):
                    sib_before = _val(sib[1])
            with dask.config.set(cfg_compute):
                obs.append({"how": "operands-built-under-A-last-step-built-and-computed-under-B" if split
                            else "built-under-A-computed-under-B", "val": _val(d, own=True)})
            with dask.config.set(cfg_build):
                obs.append({"how": "computed-again-under-A", "val": _val(d)})
            if sib is not None:
                with dask.config.set(cfg_compute):
                    sib_after = _val(sib[1])
                sexp = ctx["cur"][sib[0]]
                out.events.append({"fn": "history", "expect": {"shape": sexp["shape"], "kind": sexp["kind"], "data": sexp["data"]},
                                   "obs": [{"how": "sibling-collection-before-the-last-one-was-computed", "val": sib_before},
                                           {"how": "sibling-collection-after-the-last-one-was-computed", "val": sib_after}],
                                   "cfgs": [repr(cfg_build), repr(cfg_compute)],
                                   "_ref": {"prog": beh["prog"], "env": beh["env"], "grids": [list(map(list, g)) for g in grids]}})
            # an earlier collection of this process, computed again now (after later programs were built and lowered)
            if ring and ring[(n * 13) % len(ring)][2]["first"]["kind"] != "raised":
                oc, oexp, oref = ring[(n * 13) % len(ring)]
                with dask.config.set(cfg_compute):
                    ov = _val(oc)
                out.events.append({"fn": "history", "expect": {"shape": oexp["shape"], "kind": oexp["kind"], "data": oexp["data"]},
                                   "obs": [{"how": "earlier-collection-recomputed-later", "val": ov}],
                                   "first": oref["first"], "cfgs": oref["cfgs"] + [repr(cfg_compute)], "later_prog": beh["prog"],
                                   "_ref": oref["ref"]})
            out.events.append({"fn": "history", "expect": {"shape": exp["shape"], "kind": exp["kind"], "data": exp["data"]}, "obs": obs,
                               "cfgs": [repr(cfg_build), repr(cfg_compute)],
                               "_ref": {"prog": beh["prog"], "env": beh["env"], "grids": [list(map(list, g)) for g in grids]}})
            oref = {"cfgs": [repr(cfg_build), repr(cfg_compute)], "first": obs[0]["val"],
                    "ref": {"prog": beh["prog"], "env": beh["env"], "grids": [list(map(list, g)) for g in grids]}}
            for hh, c in live[-1:]:
                ring.append((c, ctx["cur"][hh], oref))
            for a in beh["prog"]:
                out.stats[a["a"]] = out.stats.get(a["a"], 0) + 1
    return out


def run_corpus(behaviours, max_variants=4, seed=0, procs=16, opts=None):
    import gc
    import multiprocessing as mp

    from .common import chunk_list

    if not behaviours:
        return replay.Outcome()
    replay._preload()
    # few, long histories: one contiguous part per process
    parts = chunk_list(behaviours, procs)
    args = [(p, max_variants, seed + i, dict(opts or {})) for i, p in enumerate(parts)]
    ctx = mp.get_context("fork")
    gc.collect()
    gc.freeze()
    try:
        with ctx.Pool(len(parts)) as pool:
            outs = pool.map(worker, args)
    finally:
        gc.unfreeze()
    merged = replay.Outcome()
    for o in outs:
        merged.machinery += o.machinery
        merged.n_programs += o.n_programs
        merged.events += o.events
        for k, v in o.stats.items():
            merged.stats[k] = merged.stats.get(k, 0) + v
    return merged


def _fresh_value(arg):
    """value of a program's last collection in a FRESH process (no history), default configuration"""
    prog, env, grids = arg
    import dask

    dask.config.set(scheduler="sync")
    holder = {}

    def grab(ctx, k, act, d, nv, problems):
        holder["ctx"] = ctx

    try:
        replay.replay_one({"prog": prog, "env": env}, [tuple(tuple(ax) for ax in g) for g in grids], (grab,), compute_all=False, opts={})
    except Exception as ex:
        return dict(RAISED, err=f"{type(ex).__name__}: {str(ex)[:120]}")
    ctx = holder.get("ctx")
    live = [c for h, c in enumerate(ctx["da_env"]) if c is not None and ctx["cur"][h]["kind"] != "err"] if ctx else []
    if not live:
        return dict(RAISED, err="no live collection")
    return _val(live[-1], own=True)


def fresh_values(items, procs=8):
    """items: (prog, env, grids); every one replayed alone in its own spawned interpreter"""
    import multiprocessing as mp

    if not items:
        return []
    ctx = mp.get_context("spawn")
    with ctx.Pool(min(procs, len(items)), maxtasksperchild=1) as pool:
        return pool.map(_fresh_value, items, chunksize=1)


def _witness_f26(_):
    """the recorded witness history of finding F26, in a fresh interpreter"""
    import dask

    import dask_array as da

    dask.config.set(scheduler="sync")
    a = np.arange(5)
    cfgs = [{"array.unify-chunks-policy": "auto", "array.unify-chunks-limit": "512MiB", "split_every": 2},
            {"array.unify-chunks-policy": "refine", "array.unify-chunks-limit": "512MiB", "split_every": 2}]
    obs = []
    for c in cfgs:
        with dask.config.set(c):
            x = da.from_array(a, chunks=(1, 4))
            z = da.tensordot(x, x.rechunk((4, 1)), axes=1)
            try:
                obs.append({"how": "built-and-computed-under-" + c["array.unify-chunks-policy"], "val": spec_value(np.asarray(z.compute()))})
            except Exception as ex:
                obs.append({"how": "built-and-computed-under-" + c["array.unify-chunks-policy"], "val": dict(RAISED, err=str(ex)[:100])})
    prog = [{"a": "Source", "shape": [5], "kind": "i", "salt": 0, "out": 1}, {"a": "Rechunk", "x": 1, "chunks": [[4, 1]], "out": 2},
            {"a": "Dot", "x": 1, "y": 2, "out": 3}]
    return {"fn": "history", "expect": {"shape": [], "kind": "i", "data": [30]}, "obs": obs, "cfgs": [repr(c) for c in cfgs],
            "_ref": {"prog": prog, "env": None, "grids": [[[1, 4]]], "witness": "F26"}}


def witness_events():
    import multiprocessing as mp

    with mp.get_context("spawn").Pool(1, maxtasksperchild=1) as pool:
        return pool.map(_witness_f26, [0])
