"""Observers plugged into the program replay (harness.replay): called after every action with the
real collection; they append (clause, detail) problems."""
from __future__ import annotations

import math


def _known(chunks):
    return all(not (isinstance(c, float) and math.isnan(c)) for ax in chunks for c in ax)


def _check_node(node, where, k, problems):
    name = type(node).__name__
    try:
        tb = node.transfer_bytes
    except Exception as ex:
        problems.append(("estimate-raised", f"action {k}: {where} node {name}: {type(ex).__name__}: {ex}"))
        return
    try:
        lo, hi = tb
    except Exception:
        problems.append(("estimate-not-a-pair", f"action {k}: {where} node {name}: {tb!r}"))
        return
    vals = (float(lo), float(hi))
    if any(math.isnan(v) for v in vals):
        if _known(node.chunks) and all(_known(d.chunks) for d in node.dependencies() if hasattr(d, "chunks")):
            problems.append(("estimate-nan-with-known-chunks", f"action {k}: {where} node {name}: {tb!r}"))
        return
    if not (0 <= vals[0] <= vals[1]):
        problems.append(("estimate-not-0<=min<=max", f"action {k}: {where} node {name}: {tb!r}"))
    if name == "Rechunk" and tuple(node.chunks) == tuple(node.array.chunks) and vals != (0.0, 0.0):
        problems.append(("rechunk-to-same-chunks-moves-bytes", f"action {k}: {where} node {name}: {tb!r}"))
    if name == "Blocks" and vals != (0.0, 0.0):
        problems.append(("alias-moves-bytes", f"action {k}: {where} node {name}: {tb!r}"))


def transfer_estimates(ctx, k, act, d, nv, problems):
    """C27: every node of the raw and of the optimized expression has a well-formed estimate."""
    n = 0
    for where, root in (("raw", d.expr), ("optimized", d.expr.optimize())):
        for node in root.walk():
            if hasattr(type(node), "transfer_bytes") and hasattr(node, "chunks"):
                _check_node(node, where, k, problems)
                n += 1
    if act["a"] == "Source" and d.ndim >= 1 and d.numblocks[0] >= 1:
        b = d.blocks[0]          # selecting whole blocks is a pure alias of existing keys
        for node in b.expr.walk():
            if hasattr(type(node), "transfer_bytes") and hasattr(node, "chunks"):
                _check_node(node, "blocks[0]", k, problems)
                n += 1
    ctx.setdefault("counters", {})["estimate_nodes"] = ctx.get("counters", {}).get("estimate_nodes", 0) + n


def all_handles(ctx, k, act, d, nv, problems):
    """C11: after an in-place action (and at the end of the program) every live collection must compute to its current
    denotation (ctx['cur'], maintained from ArrayProgram's env), and the user's source arrays must be unchanged."""
    import warnings

    import numpy as np

    from .replay import INPLACE, env_to_np, same_values

    prog = ctx["prog"]
    if act["a"] == "Source":
        ctx.setdefault("src_copies", []).append((d, np.array(nv, copy=True)))
        return
    if act["a"] not in INPLACE and k != len(prog) - 1:
        return
    n = 0
    for h, coll in enumerate(ctx["da_env"]):
        if coll is None:
            continue
        exp = ctx["cur"][h]
        if exp["kind"] == "err":
            continue
        want = env_to_np(exp)
        try:
            with warnings.catch_warnings():
                warnings.simplefilter("ignore")
                got = np.asarray(coll.compute(scheduler="sync"))
        except Exception as ex:
            problems.append(("handle-raised-after-inplace" if act["a"] in INPLACE else "raised",
                             f"action {k} {act['a']}: handle {h + 1}: {type(ex).__name__}: {str(ex)[:160]}"))
            continue
        n += 1
        if tuple(got.shape) != tuple(exp["shape"]) or not same_values(got, want, exp["kind"]):
            which = "target" if h + 1 == act.get("out") and act["a"] in INPLACE else "other"
            problems.append((f"{which}-collection-value-differs-after-inplace" if act["a"] in INPLACE else "values",
                             f"action {k} {act['a']}: handle {h + 1} computes {got.tolist()!r}, expected {want.tolist()!r}"))
    ctx.setdefault("counters", {})["handles_checked"] = ctx.get("counters", {}).get("handles_checked", 0) + n
