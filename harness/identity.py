"""C07: identity records (name, keys, optimized graph keys, Frisky output keys, chunks, dtype, values) of programs built here,
built again, pickled / unpickled, and built / unpickled in a fresh interpreter with a different hash seed."""
from __future__ import annotations

import base64
import hashlib
import json
import os
import subprocess
import sys
import warnings

import numpy as np

from . import replay


def _h(obj):
    return hashlib.blake2b(json.dumps(obj, sort_keys=True, default=str).encode(), digest_size=6).hexdigest()


def record(d, how):
    from . import graphs
    from .obs_programs import _dim, fpq, fresh

    with warnings.catch_warnings():
        warnings.simplefilter("ignore")
        keys = [repr(k) for k in graphs.flatten_keys(d.__dask_keys__())]
        try:
            okeys = sorted(repr(k) for k in fresh(d).__dask_graph__())
        except Exception as ex:
            okeys = ["raised " + type(ex).__name__]
        try:
            fkeys = list(fresh(d).__frisky_output_keys__())
        except Exception as ex:
            fkeys = ["raised " + type(ex).__name__]
        try:
            fp = fpq(fresh(d).compute(scheduler="sync"))
        except Exception as ex:
            fp = "raised " + type(ex).__name__
    return {"how": how, "name": str(d.name), "keys": _h(keys), "okeys": _h(okeys), "fkeys": _h(fkeys),
            "chunks": [[_dim(c) for c in ax] for ax in d.chunks], "dtype": str(d.dtype), "fp": fp}


def build(item):
    """replay one program; returns the last live collection (or None)"""
    holder = {}

    def grab(ctx, k, act, d, nv, problems):
        holder["ctx"] = ctx

    replay.replay_one({"prog": item["prog"], "env": item["env"]}, [tuple(tuple(ax) for ax in g) for g in item["grids"]], (grab,),
                      compute_all=False, opts={})
    ctx = holder.get("ctx")
    live = [c for h, c in enumerate(ctx["da_env"]) if c is not None and ctx["cur"][h]["kind"] != "err"] if ctx else []
    return live[-1] if live else None


def _unrelated_history_step():
    """something else happens in the process between two builds of one program: the genuine numpy.round is used as a block
    function of an unrelated array (names of OTHER programs must not depend on it)"""
    import dask_array as da

    da.from_array(np.arange(4), chunks=2).map_blocks(np.round, dtype=np.int64).name


def local_records(item):
    import cloudpickle
    import dask

    dask.config.set(scheduler="sync")
    out = {"ref": None, "others": [], "pickle": None}
    try:
        d = build(item)
        if d is None:
            return out
        out["ref"] = record(d, "built")
        _unrelated_history_step()
        d2 = build(item)
        out["others"].append(record(d2, "built-again-in-this-process"))
        blob = cloudpickle.dumps(d)
        out["others"].append(record(cloudpickle.loads(blob), "pickle-round-trip-in-this-process"))
        out["pickle"] = base64.b64encode(blob).decode()
    except Exception as ex:
        out["err"] = f"{type(ex).__name__}: {str(ex)[:160]}"
    return out


def foreign_main():
    """runs in a fresh interpreter (other PYTHONHASHSEED): rebuild every program and unpickle every blob"""
    import cloudpickle
    import dask

    dask.config.set(scheduler="sync")
    items = json.load(open(sys.argv[1]))
    res = []
    for it in items:
        r = {"id": it["id"], "others": []}
        try:
            d = build(it)
            if d is not None:
                r["others"].append(record(d, "built-in-a-fresh-process-with-another-hash-seed"))
            if it.get("pickle"):
                r["others"].append(record(cloudpickle.loads(base64.b64decode(it["pickle"])), "unpickled-in-a-fresh-process"))
        except Exception as ex:
            r["err"] = f"{type(ex).__name__}: {str(ex)[:160]}"
        res.append(r)
    json.dump(res, open(sys.argv[2], "w"))


def run_foreign(items, rundir, hashseed="4242", shards=8):
    from .common import chunk_list

    procs = []
    for n, part in enumerate(chunk_list(items, shards)):
        inp, outp = os.path.join(rundir, f"ident-in-{hashseed}-{n}.json"), os.path.join(rundir, f"ident-out-{hashseed}-{n}.json")
        json.dump(part, open(inp, "w"))
        env = dict(os.environ, PYTHONHASHSEED=hashseed, OPENBLAS_NUM_THREADS="1")
        procs.append((subprocess.Popen([sys.executable, "-c", "from harness.identity import foreign_main; foreign_main()", inp, outp],
                                       env=env, cwd=os.path.dirname(os.path.dirname(os.path.abspath(__file__))),
                                       stdout=subprocess.DEVNULL, stderr=subprocess.PIPE), outp))
    out = []
    for p, outp in procs:
        _, err = p.communicate(timeout=1800)
        if p.returncode != 0:
            from .tlc import MachineryError

            raise MachineryError(f"identity worker failed: {err.decode()[-800:]}")
        out += json.load(open(outp))
    return out
