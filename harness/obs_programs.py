"""Observers for the program replay that RECORD observations (cases for Trace_Obs.tla) instead of
judging them: exported graphs (C04), produced blocks (C03), per-phase values (C02), recorded
executions (C10), Frisky records (C21).  Signature: ob(ctx, k, act, d, nv, problems)."""
from __future__ import annotations

import math
import itertools
import json
import warnings

import numpy as np

from . import graphs
from .replay import RAISED, spec_value

UNK = -7


def _dim(v):
    return UNK if isinstance(v, float) and math.isnan(v) else int(v)


def advertised(d):
    return {"shape": [_dim(s) for s in d.shape], "chunks": [[_dim(c) for c in ax] for ax in d.chunks], "dtype": str(d.dtype)}


def _cfg(opt):
    import dask

    return dask.config.set({"array.optimize-graph": bool(opt)})


def fresh(d):
    """a new collection object over the same expression (no cached lowering)"""
    from dask_array._new_collection import new_collection

    return new_collection(d.expr)


def run_graph(c, opt):
    """Build c's own graph under optimize-graph=opt and execute it with the driver's scheduler (never through
    dask.compute, whose generic optimizer would simplify the expression again).  -> (store, keys, result)"""
    keys = graphs.flatten_keys(c.__dask_keys__())
    with _cfg(opt):
        dsk = c.__dask_graph__()
    G, ids, gg = graphs.export_graph(dsk, keys)
    orders = graphs.topo_orders(G, how_many=1)
    if not orders:
        raise RuntimeError("graph not executable (not closed or cyclic)")
    _, store = graphs.execute(gg, ids, orders[0], fingerprints=False)
    fin, extra = c.__dask_postcompute__()

    def nest(ks):
        return [nest(e) for e in ks] if isinstance(ks, list) else store[ks]

    return store, keys, fin(nest(c.__dask_keys__()), *extra)


# ------------------------------------------------------------------ C04
def graph_case(d, opt, at=0):
    name0 = d.name
    keys = graphs.flatten_keys(d.__dask_keys__())
    with _cfg(opt):
        # optimize on: the object itself (its own caches are part of what is observed); off: a fresh
        # collection over the same expression, because a collection caches its first lowering
        c = d if opt and "_lowered_expr" not in d.__dict__ else fresh(d)
        dsk = c.__dask_graph__()
    G, ids, gg = graphs.export_graph(dsk, keys)
    return {"fn": "graph", "at": at, "opt": int(bool(opt)), "g": G, "keys": graphs.key_records(keys), "name": str(name0),
            "numblocks": [int(n) for n in d.numblocks], "name_after": str(c.name)}, (ids, gg, keys)


def obs_graph(ctx, k, act, d, nv, problems):
    for opt in (True, False):
        try:
            with warnings.catch_warnings():
                warnings.simplefilter("ignore")
                case, _ = graph_case(d, opt, k)
        except Exception as ex:  # graph construction failed: C08's subject (optimized) / C01's (raw)
            ctx["emit"].append({"fn": "graph-raised", "at": k, "opt": int(opt), "err": f"{type(ex).__name__}: {str(ex)[:200]}"})
            continue
        ctx["emit"].append(case)


# ------------------------------------------------------------------ C03
def blocks_case(d, at=0, opt=True):
    adv = advertised(d)              # read before any graph is built
    store, keys, res = run_graph(fresh(d), opt)
    blocks = []
    for key in keys:
        v = store[key]
        blocks.append({"idx": [int(i) for i in key[1:]], "shape": [int(s) for s in np.shape(v)], "dtype": str(np.asarray(v).dtype)})
    adv2 = advertised(d)
    case = {"fn": "blocks", "at": at, "opt": int(bool(opt)), "adv": adv, "blocks": blocks,
            "result": {"shape": [int(s) for s in np.shape(res)], "dtype": str(np.asarray(res).dtype)}}
    if adv2 != adv:
        case["adv_after"] = adv2
    return case


def obs_blocks(ctx, k, act, d, nv, problems):
    for opt in ((True, False) if ctx["opts"].get("both_modes") else (True,)):
        try:
            with warnings.catch_warnings():
                warnings.simplefilter("ignore")
                ctx["emit"].append(blocks_case(d, k, opt))
        except Exception as ex:
            ctx["emit"].append({"fn": "blocks-raised", "at": k, "opt": int(opt), "err": f"{type(ex).__name__}: {str(ex)[:200]}"})


# ------------------------------------------------------------------ C02 (phases)
def _value_of(expr_or_coll, opt):
    from dask_array._collection import Array
    from dask_array._new_collection import new_collection

    c = expr_or_coll if isinstance(expr_or_coll, Array) else new_collection(expr_or_coll)
    try:
        with warnings.catch_warnings():
            warnings.simplefilter("ignore")
            return spec_value(run_graph(c, opt)[2])
    except Exception as ex:
        return dict(RAISED, err=f"{type(ex).__name__}: {str(ex)[:160]}")


def phases_case(d, expect, at=0):
    e = d.expr
    phases = [{"phase": "raw", "val": _value_of(e, False)}]
    try:
        with warnings.catch_warnings():
            warnings.simplefilter("ignore")
            s = e.simplify()
            phases.append({"phase": "simplified", "val": _value_of(s, False)})
            low = s.lower_completely()
            phases.append({"phase": "lowered", "val": _value_of(low, False)})
            fu = low.fuse()
            phases.append({"phase": "fused", "val": _value_of(fu, False)})
    except Exception as ex:
        phases.append({"phase": "optimize", "val": dict(RAISED, err=f"{type(ex).__name__}: {str(ex)[:160]}")})
    phases.append({"phase": "pinned", "val": _value_of(fresh(d), True)})
    return {"fn": "phases", "at": at, "expect": {"shape": expect["shape"], "kind": expect["kind"], "data": expect["data"]},
            "phases": phases}


def obs_phases(ctx, k, act, d, nv, problems):
    exp = ctx["env"][k]
    if exp["kind"] == "err":
        return
    ctx["emit"].append(phases_case(d, exp, k))


# ------------------------------------------------------------------ C02 (every fired rewrite)
def _proj(expr):
    """value + dtype of an expression, computed from its own un-optimized graph"""
    from dask_array._new_collection import new_collection

    try:
        with warnings.catch_warnings():
            warnings.simplefilter("ignore")
            v = np.asarray(run_graph(new_collection(expr), False)[2])
        sv = spec_value(v)
        sv["dtype"] = str(v.dtype)
        return sv
    except Exception as ex:
        return dict(RAISED, dtype="", err=f"{type(ex).__name__}: {str(ex)[:160]}")


def rewrite_cases(d, at=0, limit=12):
    from .record import recording

    with recording() as rec:
        try:
            with warnings.catch_warnings():
                warnings.simplefilter("ignore")
                d.expr.simplify().lower_completely()
        except Exception:
            pass
        records = list(rec.records)
    out = []
    for phase, rule, before, after in records[:limit]:
        pb = _proj(before)
        pa = _proj(after) if pb["kind"] != "raised" else dict(RAISED, dtype="")
        out.append({"fn": "rewrite", "at": at, "phase": phase, "rule": rule, "before": pb, "after": pa,
                    "btype": type(before).__name__, "atype": type(after).__name__})
    return out


def obs_rewrites(ctx, k, act, d, nv, problems):
    ctx["emit"].extend(rewrite_cases(d, k))


# ------------------------------------------------------------------ C02 (fusion provenance)
def _frontier(gg, start, common):
    seen, out, stack = set(), set(), [start]
    while stack:
        k = stack.pop()
        if k in seen:
            continue
        seen.add(k)
        if k in common and k != start:
            out.add(k)
            continue
        t = gg.get(k)
        if t is not None:
            stack.extend(t.dependencies)
    return out


def fusion_case(d, at=0):
    from dask._expr import Expr

    with warnings.catch_warnings():
        warnings.simplefilter("ignore")
        low = d.expr.simplify().lower_completely()
        fu = low.fuse()
    if fu._name == low._name and len(list(fu.walk())) == len(list(low.walk())):
        return None
    gl = graphs.convert(Expr.__dask_graph__(low))
    gf = graphs.convert(Expr.__dask_graph__(fu))
    common = set(gl) & set(gf)
    ids = {}

    def kid(k):
        return ids.setdefault(k, len(ids) + 1)

    blocks = []
    import itertools

    for idx in itertools.product(*[range(n) for n in low.numblocks]):
        kl, kf = (low._name,) + idx, (fu._name,) + idx
        if kl not in gl or kf not in gf:
            blocks.append({"idx": list(idx), "fused": [0], "unfused": [-1]})
            continue
        blocks.append({"idx": list(idx), "fused": sorted(kid(k) for k in _frontier(gf, kf, common)),
                       "unfused": sorted(kid(k) for k in _frontier(gl, kl, common))})
    nontrivial = any(b["fused"] for b in blocks)
    return {"fn": "fusion", "at": at, "blocks": blocks, "nontrivial": int(nontrivial),
            "ngroups": sum(1 for n in fu.walk() if type(n).__name__ == "FusedBlockwise")}


def obs_fusion(ctx, k, act, d, nv, problems):
    try:
        c = fusion_case(d, k)
    except Exception as ex:
        ctx["emit"].append({"fn": "fusion-raised", "at": k, "err": f"{type(ex).__name__}: {str(ex)[:200]}"})
        return
    if c is not None:
        ctx["emit"].append(c)


# ------------------------------------------------------------------ C02 / C04: diamonds (Fusion.tla)
def _output_blocks(d):
    """block index -> value of the optimized (pinned, fused) graph's output blocks"""
    store, keys, _ = run_graph(fresh(d), True)
    return {tuple(int(v) for v in k[1:]): np.asarray(store[k]) for k in keys}


def obs_diamond(ctx, k, act, d, nv, problems):
    """For the programs of ArrayProgram.DiamondAct over a from_array source on the unit grid: which blocks of the shared
    node's source does every output block of the OPTIMIZED graph read?  Observed black-box: one source block at a time
    is perturbed and the program rebuilt; the output blocks whose value changes read it.  Fusion.tla predicts the set."""
    import dask_array as da

    from . import replay

    prog = ctx["prog"]
    tr = [a for a in prog if a["a"] == "Transpose"]
    if k != len(prog) - 1 or len(tr) != 3 or prog[0]["kind"] != "i" or len(prog[0]["shape"]) != 3:
        return
    grids = ctx["grids"]
    if any(c != 1 for ax in grids[0] for c in ax):
        return          # other grids: the operands are re-aligned (unify_chunks) and blocks no longer correspond one to one
    case = {"fn": "diamond", "at": k, "left": [tr[1]["perm"], tr[0]["perm"]], "right": [tr[2]["perm"]], "blocks": [], "raised": ""}

    def build(perturb):
        env = []
        gi = 0
        for a in prog:
            if a["a"] == "Source":
                arr = replay.src_array(a).copy()
                if gi == 0 and perturb is not None:
                    arr[perturb] += 1000
                env.append(da.from_array(arr, chunks=tuple(tuple(c) for c in grids[gi])))
                gi += 1
            else:
                env.append(replay.apply_action(da, a, env, "da"))
        return env[-1]

    try:
        with warnings.catch_warnings():
            warnings.simplefilter("ignore")
            base = _output_blocks(build(None))
            reads = {b: [] for b in base}
            shape = prog[0]["shape"]
            for B in itertools.product(*[range(n) for n in shape]):        # unit grid: block index = element index
                out = _output_blocks(build(B))
                for b in base:
                    if b not in out or out[b].shape != base[b].shape or not np.array_equal(out[b], base[b]):
                        reads[b].append([int(v) for v in B])
    except Exception as ex:
        case["raised"] = f"{type(ex).__name__}: {str(ex)[:160]}"
        ctx["emit"].append(case)
        return
    case["blocks"] = [{"idx": list(b), "reads": reads[b]} for b in sorted(reads)]
    ctx["emit"].append(case)


# ------------------------------------------------------------------ C19: the combine plan of the Blelloch scan (Blelloch.tla)
def obs_blelloch(ctx, k, act, d, nv, problems):
    """For a Cumulative(method="blelloch") action on a 1-D operand: read the combine tasks off the collection's own raw
    graph as triples (level, i, j) = "at this level value i := value j (+) value i"."""
    if act.get("a") != "Cumulative" or act.get("method") != "blelloch" or d is None or d.ndim != 1:
        return
    try:
        with warnings.catch_warnings():
            warnings.simplefilter("ignore")
            e = d.expr
            node = next((n for n in e.walk() if type(n).__name__ == "CumReductionBlelloch"), None)
            if node is None:
                return
            layer = node._layer()
    except Exception as ex:
        ctx["emit"].append({"fn": "blelloch-raised", "at": k, "err": f"{type(ex).__name__}: {str(ex)[:160]}"})
        return
    name = node._name
    plan = []
    for key, task in layer.items():
        # combine keys: (name, block index, level, i); their task is (binop, left value, right value)
        if not (isinstance(key, tuple) and key[0] == name and len(key) == 4):
            continue
        left = task[1]
        plan.append([int(key[2]), int(key[3]), int(left[3]) if len(left) == 4 else int(left[1])])
    nb = int(node.array.numblocks[0])
    ctx["emit"].append({"fn": "blelloch", "at": k, "n": max(nb - 1, 0), "plan": sorted(plan)})


# ------------------------------------------------------------------ C08 (termination, idempotence, no new exception)
def optimize_case(d, at=0, max_passes=70):
    from dask._expr import collect_dependents

    from dask_array._materialize import _lower as mat_lower  # noqa: F401  (import check only)

    e = d.expr
    obs = {"fn": "optimize", "at": at, "raw_ok": 1, "err": "", "stage": "", "passes": [], "opt1": "", "opt2": "", "simp1": "",
           "simp2": "", "low1": "", "low2": "", "opt_ok": 1}
    try:
        with warnings.catch_warnings():
            warnings.simplefilter("ignore")
            run_graph(fresh(d), False)
    except Exception as ex:
        obs["raw_ok"] = 0
        obs["raw_err"] = f"{type(ex).__name__}: {str(ex)[:160]}"
        return obs
    stage = "simplify"
    try:
        with warnings.catch_warnings():
            warnings.simplefilter("ignore")
            cur = e
            for _ in range(max_passes):
                new = cur.simplify_once(dependents=collect_dependents(cur), simplified={})
                obs["passes"].append({"stage": "simplify", "name": new._name})
                if new._name == cur._name:
                    break
                cur = new
            stage = "lower"
            for _ in range(max_passes):
                new = cur.lower_once({})
                obs["passes"].append({"stage": "lower", "name": new._name})
                if new._name == cur._name:
                    break
                cur = new
            stage = "simplify"
            s1 = e.simplify()
            obs["simp1"], obs["simp2"] = s1._name, s1.simplify()._name
            stage = "lower"
            l1 = s1.lower_completely()
            obs["low1"], obs["low2"] = l1._name, l1.lower_completely()._name
            stage = "fuse"
            o1 = e.optimize()
            obs["opt1"] = o1._name
            stage = "optimize-again"
            from .record import recording

            with recording() as rec:
                o2 = o1.optimize()
                second = sorted({f"{rule}:{type(before).__name__}" for _, rule, before, _ in rec.records})
            obs["opt2"] = o2._name
            if o2._name != o1._name:
                # diagnostics for findings: is the second result a fixpoint, and is it smaller?
                obs["opt3"] = o2.optimize()._name
                obs["nodes1"], obs["nodes2"] = len(list(o1.walk())), len(list(o2.walk()))
                obs["second_pass_rules"] = second
    except Exception as ex:
        obs["err"] = f"{type(ex).__name__}: {str(ex)[:200]}"
        obs["stage"] = stage
        return obs
    try:
        with warnings.catch_warnings():
            warnings.simplefilter("ignore")
            run_graph(fresh(d), True)
    except Exception as ex:
        obs["opt_ok"] = 0
        obs["opt_err"] = f"{type(ex).__name__}: {str(ex)[:200]}"
    return obs


def obs_optimize(ctx, k, act, d, nv, problems):
    ctx["emit"].append(optimize_case(d, k))


# ------------------------------------------------------------------ C14 (rechunk by specification)
def obs_rechunk(ctx, k, act, d, nv, problems):
    """For Rechunk / RechunkSpec actions: the advertised chunks vs the specification, then (like C03 / C02) the blocks
    and the per-phase values of the rechunked collection and of whatever consumes it later."""
    from dask_array._core_utils import normalize_chunks

    from .replay import rechunk_spec

    prog = ctx["prog"]
    has_rechunk = any(a["a"] in ("Rechunk", "RechunkSpec") for a in prog[: k + 1])
    if not has_rechunk:
        return
    if act["a"] in ("Rechunk", "RechunkSpec"):
        x = ctx["da_env"][act["x"] - 1]
        prev = [[_dim(c) for c in ax] for ax in x.chunks]
        if act["a"] == "Rechunk":
            spec = [{"k": "tuple"} for _ in act["chunks"]]
            case = {"fn": "rechunk_spec", "at": k, "shape": [_dim(s) for s in x.shape], "prev": prev,
                    "spec": [{"k": "keep"} for _ in act["chunks"]], "balance": 0,
                    "out": [[_dim(c) for c in ax] for ax in d.chunks], "norm": [list(c) for c in act["chunks"]]}
            # an explicit grid: the result must be exactly that grid ("keep" against prev := requested grid)
            case["prev"] = [list(c) for c in act["chunks"]]
        else:
            sp = rechunk_spec(act)
            full = sp
            if isinstance(sp, dict):
                full = tuple(sp.get(i) for i in range(x.ndim))
            if isinstance(full, tuple):
                full = tuple(c if c is not None else x.chunks[i] for i, c in enumerate(full))
            try:
                norm = normalize_chunks(full, x.shape, dtype=x.dtype, previous_chunks=x.chunks)
            except Exception as ex:
                ctx["emit"].append({"fn": "rechunk-raised", "at": k, "err": f"normalize_chunks: {type(ex).__name__}: {ex}"})
                return
            case = {"fn": "rechunk_spec", "at": k, "shape": [_dim(s) for s in x.shape], "prev": prev, "spec": act["spec"],
                    "balance": int(bool(act["balance"])), "out": [[_dim(c) for c in ax] for ax in d.chunks],
                    "norm": [[_dim(c) for c in ax] for ax in norm]}
        ctx["emit"].append(case)
    obs_blocks(ctx, k, act, d, nv, problems)
    obs_phases(ctx, k, act, d, nv, problems)
    if k == len(prog) - 1:
        obs_joint(ctx, k, act, d, nv, problems)


# collections of EARLIER programs of this process over the same source (same data, same grid): computed together with the
# current one in a single graph, every member must keep the value it has alone (names shared between their graphs must
# denote the same blocks)
_JOINT_PREV = {}


def obs_joint(ctx, k, act, d, nv, problems, partners=3):
    import dask

    if ctx["env"][k]["kind"] == "err" or d is None:
        return
    # partners: same source under the same grid, the same rechunk actions, the same final shape - the programs whose
    # absorbed reads are most alike (they differ in the windows they take)
    sig = json.dumps([ctx["prog"][0], ctx["grids"][:1], [a for a in ctx["prog"][1:] if a["a"] in ("Rechunk", "RechunkSpec")],
                      [int(v) if v == v else -1 for v in d.shape]], sort_keys=True, default=str)
    alone = _value_of(fresh(d), True)
    mates = [m for m in _JOINT_PREV.get(sig, []) if m[0].name != d.name][-partners:]
    me = {"prog": ctx["prog"], "env": ctx["env"], "grids": ctx["grids"]}
    for other, other_alone, other_ref in mates:
        try:
            with warnings.catch_warnings():
                warnings.simplefilter("ignore")
                a, b = dask.compute(fresh(d), fresh(other), scheduler="sync")
            together = [spec_value(np.asarray(a)), spec_value(np.asarray(b))]
        except Exception as ex:
            together = [dict(RAISED, err=f"{type(ex).__name__}: {str(ex)[:160]}")] * 2
        ctx["emit"].append({"fn": "joint", "at": k, "members": [{"alone": alone, "together": together[0]},
                                                                 {"alone": other_alone, "together": together[1]}],
                            "history": [other_ref]})
    if len(_JOINT_PREV) > 4000:
        _JOINT_PREV.clear()
    _JOINT_PREV.setdefault(sig, []).append((d, alone, me))
    del _JOINT_PREV[sig][:-partners]


# ------------------------------------------------------------------ C20 (map_blocks block_info / block_id)
def obs_block_info(ctx, k, act, d, nv, problems):
    """Compute the current collection through the optimized graph and record every invocation of the block functions of
    the MapBlocks actions below it."""
    prog = ctx["prog"]
    mbs = [(j, a) for j, a in enumerate(prog[: k + 1]) if a["a"] == "MapBlocks"]
    if not mbs:
        return
    exp = ctx["env"][k]
    if exp["kind"] == "err":
        return
    fns = []
    for j, a in mbs:
        coll = ctx["da_env"][a["out"] - 1]
        fn = getattr(coll, "_verif_blockfn", None)
        if fn is None:
            return
        fn.calls.clear()
        fns.append((j, a, fn))
    try:
        with warnings.catch_warnings():
            warnings.simplefilter("ignore")
            got = spec_value(run_graph(fresh(d), True)[2])
    except Exception as ex:
        got = dict(RAISED, err=f"{type(ex).__name__}: {str(ex)[:160]}")
    for j, a, fn in fns:
        calls = [c for c in fn.calls if all(s > 0 for s in c["shape"]) or True]
        ctx["emit"].append({"fn": "block_info", "at": k, "mb_at": j, "use": a["use"], "snap": [list(c) for c in fn.chunks_at_call],
                            "calls": calls, "got": got, "expect": {"shape": exp["shape"], "kind": exp["kind"], "data": exp["data"]}})
        fn.calls.clear()


def obs_block_info2(ctx, k, act, d, nv, problems):
    """MapBlocks2 (two inputs of different rank, drop_axis, block_info): every invocation's per-input block_info vs the
    block actually handed over and the input's layout when map_blocks was called"""
    prog = ctx["prog"]
    mbs = [(j, a) for j, a in enumerate(prog[: k + 1]) if a["a"] == "MapBlocks2"]
    exp = ctx["env"][k]
    if not mbs or exp["kind"] == "err":
        return
    fns = []
    for j, a in mbs:
        fn = getattr(ctx["da_env"][a["out"] - 1], "_verif_blockfn2", None)
        if fn is None:
            return
        fn.calls.clear()
        fns.append((j, a, fn))
    try:
        with warnings.catch_warnings():
            warnings.simplefilter("ignore")
            got = spec_value(run_graph(fresh(d), True)[2])
    except Exception as ex:
        got = dict(RAISED, err=f"{type(ex).__name__}: {str(ex)[:160]}")
    for j, a, fn in fns:
        ctx["emit"].append({"fn": "block_info2", "at": k, "mb_at": j, "drop": a["drop"], "snaps": [[list(c) for c in s] for s in fn.snaps],
                            "calls": list(fn.calls), "got": got, "expect": {"shape": exp["shape"], "kind": exp["kind"], "data": exp["data"]}})
        fn.calls.clear()


# ------------------------------------------------------------------ C28 (unknown chunk sizes)
def obs_unknown(ctx, k, act, d, nv, problems):
    prog = ctx["prog"]
    producers = [a for a in prog[: k + 1] if a["a"] in ("MaskSelect", "Unknown")]
    if not producers:
        return
    exp = ctx["env"][k]
    if exp["kind"] == "err":
        return
    resolved = int(act["a"] == "ComputeChunkSizes")
    adv = {"shape": [], "chunks": [], "dtype": ""}
    try:
        with warnings.catch_warnings():
            warnings.simplefilter("ignore")
            adv = advertised(d)          # metadata of an operation that needs the unknown sizes may itself refuse
            case = blocks_case(d, k, True)
            got = spec_value(run_graph(fresh(d), True)[2])
    except Exception as ex:
        ctx["emit"].append({"fn": "unknown", "at": k, "expect": {"shape": exp["shape"], "kind": exp["kind"], "data": exp["data"]},
                            "got": dict(RAISED, err=f"{type(ex).__name__}: {str(ex)[:160]}"), "adv": adv, "resolved": resolved})
        return
    ctx["emit"].append(case)
    ctx["emit"].append({"fn": "unknown", "at": k, "expect": {"shape": exp["shape"], "kind": exp["kind"], "data": exp["data"]}, "got": got,
                        "adv": adv, "resolved": resolved})


# ------------------------------------------------------------------ C05 (entry points)
def _try(f):
    try:
        with warnings.catch_warnings():
            warnings.simplefilter("ignore")
            return f(), None
    except Exception as ex:
        return None, f"{type(ex).__name__}: {str(ex)[:160]}"


def _delayed_value(x):
    """assemble x.to_delayed(): every block computed on its own, block shapes must tile the result"""
    import dask

    dl = x.to_delayed()
    flat = list(np.asarray(dl, dtype=object).ravel())
    vals = dask.compute(*flat, scheduler="sync")
    blocks = np.empty(np.shape(dl), dtype=object)
    for i, v in zip(np.ndindex(*np.shape(dl)), vals):
        blocks[i] = np.asarray(v)
    if blocks.ndim == 0:
        return np.asarray(blocks[()])
    return np.block(blocks.tolist())


def entry_case(d, expect, at=0, other=None):
    import dask

    adv = {"name": str(d.name), "chunks": [[_dim(c) for c in ax] for ax in d.chunks], "dtype": str(d.dtype)}
    entries = []

    def add(entry, fval, coll=None):
        keeps = 0
        name, chunks, dtype = "", [], ""
        v, err = _try(fval)
        if coll is not None and err is None:
            c = coll()
            keeps = 1
            name, chunks, dtype = str(c.name), [[_dim(q) for q in ax] for ax in c.chunks], str(c.dtype)
        entries.append({"entry": entry, "val": spec_value(v) if err is None else dict(RAISED, err=err), "keeps": keeps, "name": name,
                        "chunks": chunks, "dtype": dtype})

    add("x.compute", lambda: fresh(d).compute(scheduler="sync"))
    add("dask.compute", lambda: dask.compute(fresh(d), scheduler="sync")[0])
    if other is not None:
        add("dask.compute-with-other", lambda: dask.compute(other, fresh(d), scheduler="sync")[1])
    box = {}

    def persisted(kind):
        def f():
            if kind == "x.persist":
                box[kind] = fresh(d).persist(scheduler="sync")
            elif kind == "dask.persist":
                box[kind] = dask.persist(fresh(d), scheduler="sync")[0]
            elif kind == "dask.optimize":
                box[kind] = dask.optimize(fresh(d))[0]
            return box[kind].compute(scheduler="sync")
        return f

    for kind in ("x.persist", "dask.persist", "dask.optimize"):
        add(kind, persisted(kind), lambda kind=kind: box[kind])
    add("x.optimize", lambda: fresh(d).optimize().compute(scheduler="sync"))
    add("x.to_delayed", lambda: _delayed_value(fresh(d)))
    # through the very object the program holds (its cached materialization is part of what the user sees: after an
    # in-place operation on an already materialized collection every entry point must see the new expression)
    add("x.compute:same-object", lambda: d.compute(scheduler="sync"))
    add("x.persist:same-object", lambda: box.__setitem__("same", d.persist(scheduler="sync")) or box["same"].compute(scheduler="sync"),
        lambda: box["same"])
    add("x.to_delayed:same-object", lambda: _delayed_value(d))
    # diagnostic for finding F01: does the graph dask's generic path builds (dask.optimize / dask.persist hand the raw
    # expression to dask's own optimizer) still define this collection's keys?
    def generic():
        from dask.base import collections_to_expr

        g = collections_to_expr([fresh(d)]).__dask_graph__()
        own = fresh(d).__dask_graph__()
        # 1: dask's generic path builds exactly x's own (pinned) graph; 0: it builds something else
        return int(set(g) == set(own))
    ghk, _ = _try(generic)
    return {"fn": "entry", "at": at, "adv": adv, "entries": entries, "generic_graph_is_own_graph": -1 if ghk is None else ghk,
            "expect": {"shape": expect["shape"], "kind": expect["kind"], "data": expect["data"]}}


def obs_entry(ctx, k, act, d, nv, problems):
    exp = ctx["env"][k]
    if exp["kind"] == "err":
        return
    try:
        if any(isinstance(s, float) for s in d.shape):
            return                       # unknown sizes: C28
    except Exception:
        return
    other = next((c for c in ctx["da_env"][:-1] if c is not None and c is not d), None)
    ctx["emit"].append(entry_case(d, exp, k, other))


# ------------------------------------------------------------------ C10 (schedules, purity)
MAX_TASKS_RUN = 70


def run_cases(colls, at=0, sources=(), orders=4, seed=0):
    """all given collections in ONE graph (shared sub-trees have several consumers), executed in several topological
    orders with fingerprints of every live value and of the user's source arrays before and after every task"""
    keys = []
    dsk = {}
    for c in colls:
        keys += graphs.flatten_keys(c.__dask_keys__())
        dsk.update(dict(fresh(c).__dask_graph__()))
    G, ids, gg = graphs.export_graph(dsk, keys)
    if len(G["defd"]) > MAX_TASKS_RUN:
        return []
    ords = graphs.topo_orders(G, how_many=orders, seed=seed)
    if not ords:
        return []
    out = []
    ref = None
    for o in ords:
        src_pre = [graphs.fingerprint(s) for s in sources]
        events, store = graphs.execute(gg, ids, o, sources=sources)
        src_post = [graphs.fingerprint(s) for s in sources]
        if ref is None:
            by_id = {i: k for k, i in ids.items()}
            ref = [""] * G["n"]
            for e in events:
                ref[e["k"] - 1] = e["out"]
            refcase = []
        out.append({"fn": "run", "at": at, "g": G, "ref": ref, "ev": events, "src_pre": src_pre, "src_post": src_post,
                    "order": "first" if o is ords[0] else "other"})
    return out


def obs_run(ctx, k, act, d, nv, problems):
    if k != len(ctx["prog"]) - 1:
        return
    colls = [c for c in ctx["da_env"] if c is not None]
    if d is not None and not any(c is d for c in colls):
        colls.append(d)
    try:
        with warnings.catch_warnings():
            warnings.simplefilter("ignore")
            cases = run_cases(colls, k, sources=ctx.get("np_src", ()), orders=ctx["opts"].get("orders", 4), seed=k)
    except Exception as ex:
        ctx["emit"].append({"fn": "run-raised", "at": k, "err": f"{type(ex).__name__}: {str(ex)[:200]}"})
        return
    ctx["emit"].extend(cases)


# ------------------------------------------------------------------ C21 (Frisky records)
class NotObservable(Exception):
    pass


def records_case(colls, at=0, api="graph"):
    """one record graph for the given collections (walked with one shared `seen` set when there are several)"""
    # the dask graph first: a collection that cannot be built / computed at all is not this property's subject
    dask_blocks = []
    try:
        for c in colls:
            dstore, keys, _ = run_graph(fresh(c), True)
            dask_blocks.append((keys, dstore))
    except Exception as ex:
        raise NotObservable(f"{type(ex).__name__}: {str(ex)[:120]}")
    recs, outs = [], []
    seen = set() if len(colls) > 1 else None
    for c in colls:
        f = fresh(c)
        if api == "graph":
            recs += list(f.__frisky_graph__(seen=seen) if seen is not None else f.__frisky_graph__())
        else:
            chunks, r, groups = f.__frisky_records_chunks__(seen=seen) if seen is not None else f.__frisky_records_chunks__()
            if chunks:
                raise NotImplementedError("binary layer chunks need the native extension")
            recs += list(r)
        outs += list(f.__frisky_output_keys__())
    G, ids, dups = graphs.export_records(recs, outs)
    case = {"fn": "records", "at": at, "api": api, "ncoll": len(colls), "g": G, "dups": dups, "outvals": []}
    try:
        store = graphs.execute_records(recs, G, ids)
    except RuntimeError:
        return case            # not executable: GraphVerdict will name the reason
    except Exception as ex:
        case["outvals"].append({"id": 0, "rec": f"raised {type(ex).__name__}: {str(ex)[:80]}", "dask": "computes"})
        return case
    for keys, dstore in dask_blocks:
        for key in keys:
            sk = str(key)
            rec = graphs.fingerprint(store[sk]) if sk in store else "missing"
            case["outvals"].append({"id": ids.get(sk, 0), "rec": rec, "dask": graphs.fingerprint(dstore[key])})
    return case


def obs_records(ctx, k, act, d, nv, problems):
    groups = [[d]]
    if k == len(ctx["prog"]) - 1:
        live = [c for c in ctx["da_env"] if c is not None]
        if len(live) >= 2:
            groups.append(live[-3:])
    for colls in groups:
        for api in ("graph", "chunks"):
            try:
                with warnings.catch_warnings():
                    warnings.simplefilter("ignore")
                    ctx["emit"].append(records_case(colls, k, api))
            except NotObservable:
                return
            except NotImplementedError as ex:
                ctx["emit"].append({"fn": "records-raised", "at": k, "declined": 1, "err": str(ex)[:160]})
            except Exception as ex:
                ctx["emit"].append({"fn": "records-raised", "at": k, "declined": 0, "api": api, "ncoll": len(colls),
                                    "err": f"{type(ex).__name__}: {str(ex)[:200]}"})


# ------------------------------------------------------------------ C24 / C29 (source reads, laziness)
def _io_logs(ctx, clear=True):
    ev = []
    for src in ctx.get("rec_src", []):
        ev += src.log
        if clear:
            src.log = []
    for coll in ctx["da_env"]:
        fn = getattr(coll, "_verif_blockfn", None) if coll is not None else None
        if fn is not None:
            ev += fn.iolog
            if clear:
                del fn.iolog[:]
    return ev


def obs_io(ctx, k, act, d, nv, problems):
    """mode 'reads' (C24): execute and record every read request + the value; mode 'lazy' (C29): go through inspecting,
    optimizing, graph building and executing and record in which phase every read / user call happened."""
    from . import iosrc

    srcs = ctx.get("rec_src", [])
    exp = ctx["env"][k]
    if exp["kind"] == "err":
        return
    mode = ctx["opts"].get("io_mode", "reads")
    ev = _io_logs(ctx)            # what construction of this action did
    if mode == "lazy":
        with warnings.catch_warnings():
            warnings.simplefilter("ignore")
            iosrc.set_phase("inspecting")
            for f in (lambda: d.shape, lambda: d.chunks, lambda: d.dtype, lambda: d.name, lambda: d.__dask_keys__(), lambda: repr(d),
                      lambda: len(d), lambda: d.numblocks, lambda: d.transfer_bytes, lambda: d._repr_html_(), lambda: d.nbytes,
                      lambda: d.size, lambda: d.npartitions, lambda: d.chunksize, lambda: str(d)):
                try:
                    f()
                except Exception:
                    pass
            ev += _io_logs(ctx)
            iosrc.set_phase("optimizing")
            for f in (lambda: d.optimize(), lambda: d.simplify(), lambda: d.expr.optimize()):
                try:
                    f()
                except Exception:
                    pass
            ev += _io_logs(ctx)
            iosrc.set_phase("building")
            try:
                fresh(d).__dask_graph__()
            except Exception:
                pass
            ev += _io_logs(ctx)
    iosrc.set_phase("executing")
    try:
        with warnings.catch_warnings():
            warnings.simplefilter("ignore")
            got = spec_value(run_graph(fresh(d), True)[2])
    except Exception as ex:
        got = dict(RAISED, err=f"{type(ex).__name__}: {str(ex)[:160]}")
    ev += _io_logs(ctx)
    iosrc.set_phase("constructing")
    shape = list(srcs[0].shape) if srcs else list(ctx["np_src"][0].shape)
    if len(srcs) > 1:
        return          # one recording source per program (the request log is per source shape)
    ctx["emit"].append({"fn": "io", "at": k, "mode": mode, "shape": shape, "ev": ev, "got": got,
                        "expect": {"shape": exp["shape"], "kind": exp["kind"], "data": exp["data"]}})


# ------------------------------------------------------------------ C06 (equal names denote equal arrays)
NAME_REGISTRY = {}       # per process: name or key -> descriptor first bound to it (the process history)


def _register(kind, name, desc, events, limit):
    prior = NAME_REGISTRY.get(name)
    if prior is None:
        NAME_REGISTRY[name] = desc
        return 1
    if len(events) < limit or prior != desc:
        events.append({"kind": kind, "name": str(name)[:80], "desc": desc, "prior": prior})
    return 0


def naming_case(d, at=0, limit=400):
    """register every expression node (all phases) and every graph key (raw and pinned graph, with block values) of d"""
    events = []
    new = 0
    e = d.expr
    trees = [e]
    try:
        with warnings.catch_warnings():
            warnings.simplefilter("ignore")
            s = e.simplify()
            low = s.lower_completely()
            trees += [s, low, low.fuse()]
    except Exception:
        pass
    seen = set()
    for t in trees:
        for node in t.walk():
            nm = getattr(node, "_name", None)
            if nm is None or nm in seen or not hasattr(node, "chunks"):
                continue
            seen.add(nm)
            try:
                desc = {"shape": [_dim(v) for v in node.shape], "chunks": [[_dim(c) for c in ax] for ax in node.chunks],
                        "dtype": str(node.dtype), "fp": ""}
            except Exception:
                continue
            new += _register("node", nm, desc, events, limit)
    for opt in (False, True):
        try:
            with warnings.catch_warnings():
                warnings.simplefilter("ignore")
                store, keys, _ = run_graph(fresh(d), opt)
        except Exception:
            continue
        for key, v in store.items():
            try:
                a = np.asarray(v)
                desc = {"shape": [int(x) for x in a.shape], "chunks": [], "dtype": str(a.dtype) if a.dtype != object else "object",
                        # inexact blocks: equal up to the quantization of spec_value (the raw and the optimized graph may
                        # evaluate one named block along different floating-point paths); everything else bit-exact
                        "fp": fpq(a) if a.dtype.kind in "fc" and a.size <= 4096 else graphs.fingerprint(v)}
            except Exception:
                continue
            new += _register("key", repr(key), desc, events, limit)
    return {"fn": "naming", "at": at, "ev": events, "new": new}


def obs_naming(ctx, k, act, d, nv, problems):
    if k != len(ctx["prog"]) - 1:
        return
    for c in [x for x in ctx["da_env"] if x is not None]:
        ctx["emit"].append(naming_case(c, k))


# ------------------------------------------------------------------ C23 (a random array is one fixed realization)
def fpq(v):
    """fingerprint of a value up to the fixed-point quantization of spec_value (robust to 1e-16 noise)"""
    import hashlib
    import json as _json

    sv = spec_value(v)
    return hashlib.blake2b(_json.dumps([sv["shape"], sv["kind"], sv["data"]]).encode(), digest_size=6).hexdigest()


def realization_case(ctx, k, d, nv):
    import cloudpickle as pickle

    from .replay import make_random

    bases = ctx.get("random_bases", [])
    if not bases:
        return None
    import dask_array as da

    ev = []

    def add(what, f, want):
        try:
            with warnings.catch_warnings():
                warnings.simplefilter("ignore")
                ev.append({"what": what, "fp": fpq(f()), "want": want})
        except Exception as ex:
            ev.append({"what": what, "fp": f"raised {type(ex).__name__}: {str(ex)[:80]}", "want": want})

    want_d = fpq(nv)
    # derived collection first (before the base is computed again), optimized and raw
    add("derived", lambda: run_graph(fresh(d), True)[2], want_d)
    add("derived-raw-graph", lambda: run_graph(fresh(d), False)[2], want_d)
    add("derived-compute", lambda: fresh(d).compute(scheduler="sync"), want_d)
    for kb, act, base, real in bases:
        want_b = fpq(real)
        add("base-recompute", lambda: base.compute(scheduler="sync"), want_b)
        add("base-fresh-collection", lambda: run_graph(fresh(base), True)[2], want_b)
        add("rebuild-same-seed", lambda: make_random(da, act).compute(scheduler="sync"), want_b)
        add("base-pickle-roundtrip", lambda: pickle.loads(pickle.dumps(base)).compute(scheduler="sync"), want_b)
    add("derived-again-after-base", lambda: run_graph(fresh(d), True)[2], want_d)
    add("derived-pickle-roundtrip", lambda: pickle.loads(pickle.dumps(d)).compute(scheduler="sync"), want_d)
    return {"fn": "realization", "at": k, "ev": ev}


def obs_realization(ctx, k, act, d, nv, problems):
    c = realization_case(ctx, k, d, nv)
    if c is not None:
        ctx["emit"].append(c)
