"""Observers for the program replay that RECORD observations (cases for Trace_Obs.tla) instead of
judging them: exported graphs (C04), produced blocks (C03), per-phase values (C02), recorded
executions (C10), Frisky records (C21).  Signature: ob(ctx, k, act, d, nv, problems)."""
from __future__ import annotations

import math
import warnings

import numpy as np

from . import graphs
from .replay import RAISED, spec_value

UNK = -7


def _dim(v):
    return UNK if isinstance(v, float) and math.isnan(v) else int(v)


def advertised(d):
    return {"shape": [_dim(s) for s in d.shape], "chunks": [[_dim(c) for c in ax] for ax in d.chunks], "dtype": str(d.dtype)}


def _cfg(opt):
    import dask

    return dask.config.set({"array.optimize-graph": bool(opt)})


def fresh(d):
    """a new collection object over the same expression (no cached lowering)"""
    from dask_array._new_collection import new_collection

    return new_collection(d.expr)


# ------------------------------------------------------------------ C04
def graph_case(d, opt, at=0):
    name0 = d.name
    keys = graphs.flatten_keys(d.__dask_keys__())
    with _cfg(opt):
        # optimize on: the object itself (its own caches are part of what is observed); off: a fresh
        # collection over the same expression, because a collection caches its first lowering
        c = d if opt and "_lowered_expr" not in d.__dict__ else fresh(d)
        dsk = c.__dask_graph__()
    G, ids, gg = graphs.export_graph(dsk, keys)
    return {"fn": "graph", "at": at, "opt": int(bool(opt)), "g": G, "keys": graphs.key_records(keys), "name": str(name0),
            "numblocks": [int(n) for n in d.numblocks], "name_after": str(c.name)}, (ids, gg, keys)


def obs_graph(ctx, k, act, d, nv, problems):
    for opt in (True, False):
        try:
            with warnings.catch_warnings():
                warnings.simplefilter("ignore")
                case, _ = graph_case(d, opt, k)
        except Exception as ex:  # graph construction failed: C08's subject (optimized) / C01's (raw)
            ctx["emit"].append({"fn": "graph-raised", "at": k, "opt": int(opt), "err": f"{type(ex).__name__}: {str(ex)[:200]}"})
            continue
        ctx["emit"].append(case)


# ------------------------------------------------------------------ C03
def blocks_case(d, at=0, opt=True):
    adv = advertised(d)              # read before any graph is built
    keys = graphs.flatten_keys(d.__dask_keys__())
    with _cfg(opt):
        c = fresh(d)
        dsk = c.__dask_graph__()
    G, ids, gg = graphs.export_graph(dsk, keys)
    orders = graphs.topo_orders(G, how_many=1)
    if not orders:
        raise RuntimeError("graph not executable (not closed or cyclic)")
    _, store = graphs.execute(gg, ids, orders[0], fingerprints=False)
    blocks = []
    for key in keys:
        v = store[key]
        blocks.append({"idx": [int(i) for i in key[1:]], "shape": [int(s) for s in np.shape(v)], "dtype": str(np.asarray(v).dtype)})
    fin, extra = d.__dask_postcompute__()

    def nest(ks):
        return [nest(e) for e in ks] if isinstance(ks, list) else store[ks]

    res = fin(nest(d.__dask_keys__()), *extra)
    adv2 = advertised(d)
    case = {"fn": "blocks", "at": at, "opt": int(bool(opt)), "adv": adv, "blocks": blocks,
            "result": {"shape": [int(s) for s in np.shape(res)], "dtype": str(np.asarray(res).dtype)}}
    if adv2 != adv:
        case["adv_after"] = adv2
    return case


def obs_blocks(ctx, k, act, d, nv, problems):
    for opt in ((True, False) if ctx["opts"].get("both_modes") else (True,)):
        try:
            with warnings.catch_warnings():
                warnings.simplefilter("ignore")
                ctx["emit"].append(blocks_case(d, k, opt))
        except Exception as ex:
            ctx["emit"].append({"fn": "blocks-raised", "at": k, "opt": int(opt), "err": f"{type(ex).__name__}: {str(ex)[:200]}"})


# ------------------------------------------------------------------ C02 (phases)
def _value_of(expr_or_coll, opt):
    from dask_array._collection import Array
    from dask_array._new_collection import new_collection

    c = expr_or_coll if isinstance(expr_or_coll, Array) else new_collection(expr_or_coll)
    try:
        with _cfg(opt), warnings.catch_warnings():
            warnings.simplefilter("ignore")
            return spec_value(c.compute(scheduler="sync"))
    except Exception as ex:
        return dict(RAISED, err=f"{type(ex).__name__}: {str(ex)[:160]}")


def phases_case(d, expect, at=0):
    e = d.expr
    phases = [{"phase": "raw", "val": _value_of(e, False)}]
    try:
        with warnings.catch_warnings():
            warnings.simplefilter("ignore")
            s = e.simplify()
            phases.append({"phase": "simplified", "val": _value_of(s, False)})
            low = s.lower_completely()
            phases.append({"phase": "lowered", "val": _value_of(low, False)})
            fu = low.fuse()
            phases.append({"phase": "fused", "val": _value_of(fu, False)})
    except Exception as ex:
        phases.append({"phase": "optimize", "val": dict(RAISED, err=f"{type(ex).__name__}: {str(ex)[:160]}")})
    phases.append({"phase": "pinned", "val": _value_of(fresh(d), True)})
    return {"fn": "phases", "at": at, "expect": {"shape": expect["shape"], "kind": expect["kind"], "data": expect["data"]},
            "phases": phases}


def obs_phases(ctx, k, act, d, nv, problems):
    exp = ctx["env"][k]
    if exp["kind"] == "err":
        return
    ctx["emit"].append(phases_case(d, exp, k))
