"""Run-time wrappers that record what the optimizer did (no source change): every fired
`_simplify_down` / `_simplify_up` / `_lower` hook with the expression objects before and after, and
the lowering-cache traffic.  Installed the way the repository's own `trace_rewrites` does it."""
from __future__ import annotations

import functools
import importlib
import pkgutil
from contextlib import contextmanager

HOOKS = {"_simplify_down": "simplify", "_simplify_up": "simplify", "_lower": "lower"}
_loaded = False


def load_all_modules():
    """import every dask_array sub-module that defines expression classes, so their hooks get wrapped"""
    global _loaded
    if _loaded:
        return
    import dask_array

    for m in pkgutil.walk_packages(dask_array.__path__, "dask_array."):
        n = m.name
        if ".tests" in n or n.endswith("_xarray") or n.endswith(".xarray") or "_frisky" in n or "_rust" in n or n.endswith("_visualize") \
                or n.endswith("_svg"):
            continue
        try:
            importlib.import_module(n)
        except Exception:
            pass
    _loaded = True


def expr_classes():
    from dask_array._expr import ArrayExpr

    seen, stack = set(), [ArrayExpr]
    while stack:
        c = stack.pop()
        if c in seen:
            continue
        seen.add(c)
        stack.extend(c.__subclasses__())
    return seen


class Recorder:
    def __init__(self):
        self.records = []     # (phase, rule, before_expr, after_expr)
        self.enabled = False  # only while the driver optimizes the program under observation
        self.seen = set()
        self.patched = 0

    def reset(self):
        self.records = []
        self.seen = set()


RECORDER = Recorder()


def install():
    """wrap the hooks once per process; recording happens only while RECORDER.enabled"""
    from dask_array._expr import ArrayExpr

    if RECORDER.patched:
        return RECORDER
    load_all_modules()
    rec = RECORDER

    def traced(orig, hook, phase):
        @functools.wraps(orig)
        def wrapper(self, *args, **kwargs):
            out = orig(self, *args, **kwargs)
            if out is None or not rec.enabled:
                return out
            before = args[0] if hook == "_simplify_up" else self
            if isinstance(out, ArrayExpr) and isinstance(before, ArrayExpr) and out._name != before._name:
                key = (before._name, out._name)
                if key not in rec.seen:
                    rec.seen.add(key)
                    rec.records.append((phase, f"{type(self).__name__}.{hook}", before, out))
            return out

        return wrapper

    for cls in expr_classes():
        for hook, phase in HOOKS.items():
            if hook in cls.__dict__:
                setattr(cls, hook, traced(cls.__dict__[hook], hook, phase))
                rec.patched += 1
    if not rec.patched:
        raise RuntimeError("no rewrite hook found to wrap (refactored?)")
    return rec


@contextmanager
def recording():
    rec = install()
    rec.reset()
    rec.enabled = True
    try:
        yield rec
    finally:
        rec.enabled = False
