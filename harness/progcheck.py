"""Shared driver of the program-corpus checks: TLC enumerates behaviours of ArrayProgram.tla, the
behaviours are replayed into dask_array with observers that record observations (cases), and TLC
validates every observation against the L1 module it belongs to (Trace_Obs.tla)."""
from __future__ import annotations

import os

import json

from . import cases as casemod
from . import replay, tlc

MODULE_CONSTS = {"Trace_Obs": {"MCMode": "off", "OptNames": "{}", "MBLayouts": "{}", "MBRecs": "{}", "IOReqs": "{}", "IOShape": "{}", "NNames": "{}", "NDescs": "{}", "NCfgs": "{}", "RNodes": "{}", "RMode": "off", "XModules": "{}", "XMode": "off", "FRank": 3, "FDepth": 2, "FMutant": "none", "BNMax": 40, "BMutant": "none"}}
ALL = replay.ALL_ACTS
NO_INDEX = [a for a in ALL if a != "Index"]

PUSHED = ["Index", "Take", "Rechunk"]
DERIVE = ["Index", "Elemwise", "Rechunk", "Transpose"]
MUTATE = ["SetItem", "MaskSet", "OutUfunc"]
INPLACE_ACTS = ["Index", "Elemwise", "Rechunk", "Transpose", "SetItem", "MaskSet", "OutUfunc"]
CHAIN = ["Index", "Rechunk", "Transpose", "Elemwise", "Reduce"]

# Compositions excluded from the deep corpora.  Every pair is tied to a finding recorded in
# known_findings.jsonl: the composition already fails on the unchanged tree, so a corpus containing it
# could not tell a new defect from the known one.  The findings' own witness programs are still replayed.
EXCL_DEEP = [
    ("WindowReduce", "*"),      # F07 sliding-window kernel substitution changes the inner layout under a consumer
    ("BroadcastTo", "Take"),    # F19 take on a broadcast_to result: missing dependency / chunks do not add up
]

CORPORA = {
    "d1-1d": dict(acts=ALL, maxlen=1, preset="1d", sim=False, smax=1, idxpad=0, emit_all=True),
    "d1-1d-wide": dict(acts=ALL, maxlen=1, preset="1d", sim=False, smax=2, idxpad=1, emit_all=True),
    "d1-1d7": dict(acts=NO_INDEX, maxlen=1, preset="1d7", sim=False, emit_all=True),
    "d1-2d": dict(acts=NO_INDEX, maxlen=1, preset="2d", sim=False, emit_all=True),
    "d1-lean3": dict(acts=ALL, maxlen=1, preset="lean3", sim=False, lean=True, emit_all=True),
    "d2-lean1": dict(acts=ALL, maxlen=2, preset="lean1", sim=False, lean=True, excl=EXCL_DEEP, workers=4),
    "d2-lean2": dict(acts=ALL, maxlen=2, preset="lean2", sim=False, lean=True, excl=EXCL_DEEP, workers=4),
    "d2-lean3": dict(acts=ALL, maxlen=2, preset="lean3", sim=False, lean=True, excl=EXCL_DEEP, workers=4),
    # anything, then an operation the optimizer pushes down (slice / take=shuffle / rechunk)
    "d2-push1": dict(acts=ALL, acts2=PUSHED, maxlen=2, preset="lean1", sim=False, lean=True, excl=EXCL_DEEP, workers=4),
    "d2-push2": dict(acts=ALL, acts2=PUSHED, maxlen=2, preset="lean2", sim=False, lean=True, excl=EXCL_DEEP, workers=4),
    "d2-push3": dict(acts=ALL, acts2=PUSHED, maxlen=2, preset="lean3", sim=False, lean=True, excl=EXCL_DEEP, workers=4),
    # three-step chains of structural operations and pushed-down operations
    "d3-chain1": dict(acts=CHAIN, maxlen=3, preset="lean1", sim=False, lean=True, excl=EXCL_DEEP, workers=8),
    # rechunk by specification at every position (C14)
    "d1-rspec": dict(acts=["RechunkSpec", "Rechunk"], maxlen=1, preset="lean", sim=False, lean=True, emit_all=True),
    "d2-rechunk-after": dict(acts=ALL, acts2=["Rechunk", "RechunkSpec"], maxlen=2, preset="lean", sim=False, lean=True, excl=EXCL_DEEP,
                             workers=8),
    "d2-rechunk-before": dict(acts=["Rechunk", "RechunkSpec"], acts2=ALL, maxlen=2, preset="lean", sim=False, lean=True, excl=EXCL_DEEP,
                              workers=8, observe_all=True),
    # sliding-window reductions over every chunking of small 1-D sources (layout-changing kernel substitution)
    "d1-win": dict(acts=["Window", "WindowReduce"], maxlen=1, preset="win", sim=False, emit_all=True),
    "d1-win-q": dict(acts=["Window", "WindowReduce"], maxlen=1, preset="win", sim=False, emit_all=True,
                     keep=lambda b: b["prog"][1].get("op", "sum") in ("sum", "max", "mean") and len(b["prog"][0]["shape"]) == 1),
    "d1-win-sum2": dict(acts=["WindowReduce"], maxlen=1, preset="win", sim=False, emit_all=True,
                        keep=lambda b: b["prog"][1].get("op") == "sum" and len(b["prog"][0]["shape"]) == 1 and b["prog"][1]["window"] in (2, 3)
                        and b["prog"][0]["kind"] == "i"),
    # map_blocks with block_info / block_id above layout-changing sub-trees and below anything (C20)
    "d1-mapblocks": dict(acts=["MapBlocks"], maxlen=1, preset="mixed", sim=False, emit_all=True),
    # two inputs of different rank, drop_axis, block_info: the 1-D operand is a row / a reduction / a slice of the 2-D source
    "d2-mapblocks2": dict(acts=["Index", "Reduce"], acts2=["Rechunk", "MapBlocks2"], acts3=["MapBlocks2"], maxlen=3, preset="lean2", sim=False,
                          lean=True, workers=4, emit_all=True, final_only=True,
                          keep=lambda b: b["prog"][-1]["a"] == "MapBlocks2"),
    "d2-above-mapblocks": dict(acts=ALL, acts2=["MapBlocks"], maxlen=2, preset="lean", sim=False, lean=True, workers=8),
    "d2-win-mapblocks": dict(acts=["WindowReduce"], acts2=["MapBlocks"], maxlen=2, preset="win", sim=False, workers=4),
    # the same, thinned for the quick tier: sum / max, block_info functions, 1-D sources, all chunk grids
    "d2-win-mapblocks-q": dict(acts=["WindowReduce"], acts2=["MapBlocks"], maxlen=2, preset="win", sim=False, workers=4,
                               keep=lambda b: b["prog"][1].get("op") in ("sum", "max") and b["prog"][-1].get("use") == "both"
                               and len(b["prog"][0]["shape"]) == 1 and b["prog"][1]["window"] <= 3),
    "d2-below-mapblocks": dict(acts=["MapBlocks"], acts2=ALL, maxlen=2, preset="lean", sim=False, lean=True, workers=8, excl=EXCL_DEEP),
    "d3-mapblocks-chain": dict(acts=["MapBlocks", "Index", "Rechunk", "Transpose"], maxlen=3, preset="lean1", sim=False, lean=True,
                               workers=8),
    # unknown chunk sizes (C28): producers, compute_chunk_sizes, follow-on operations
    "d2-unknown-ccs": dict(acts=["MaskSelect", "Unknown"], acts2=["ComputeChunkSizes"], maxlen=2, preset="small", sim=False, workers=4,
                           observe_all=True),
    "d2-unknown-follow": dict(acts=["MaskSelect", "Unknown"], acts2=ALL, maxlen=2, preset="lean", sim=False, lean=True, workers=8,
                              excl=EXCL_DEEP),
    "d3-unknown-ccs-follow": dict(acts=["MaskSelect", "Unknown"], acts2=["ComputeChunkSizes", "Index", "Elemwise", "Reduce", "Rechunk", "Take",
                                                                      "Reshape", "ExpandSqueeze", "Concat", "Cumulative"],
                                  maxlen=3, preset="lean1", sim=False, lean=True, workers=8),
    "d3-unknown-ccs-follow2": dict(acts=["MaskSelect", "Unknown"], acts2=["ComputeChunkSizes", "Index", "Elemwise", "Reduce", "Transpose"],
                                   maxlen=3, preset="lean2", sim=False, lean=True, workers=8),
    # rechunk of an unknown axis onto an unknown target with one / one more / the same number of blocks (C28: exact or refused)
    "d2-unknown-rechunk-nan": dict(acts=["MaskSelect", "Unknown"], acts2=["RechunkNan"], maxlen=2, preset="lean", sim=False, lean=True,
                                   workers=4),
    # entry points that return collections, with follow-on operations (C05)
    "d3-persist-follow1": dict(acts=ALL, acts2=["Persist"], acts3=ALL, maxlen=3, preset="lean1", sim=False, lean=True, workers=8,
                               excl=EXCL_DEEP),
    "d2-persist-follow2": dict(acts=["Persist"], acts2=ALL, maxlen=2, preset="lean2", sim=False, lean=True, workers=8, excl=EXCL_DEEP),
    "d2-persist-follow3": dict(acts=["Persist"], acts2=ALL, maxlen=2, preset="lean3", sim=False, lean=True, workers=8, excl=EXCL_DEEP),
    # every reduction x keepdims x split_every over the 1-D sources (neighbours differ only in split_every / keepdims)
    "d1-reduce-1d": dict(acts=["Reduce", "ArgReduce"], maxlen=1, preset="1d", sim=False, emit_all=True),
    "d1-reduce-1d7": dict(acts=["Reduce", "ArgReduce"], maxlen=1, preset="1d7", sim=False, emit_all=True,
                          keep=lambda b: b["prog"][1].get("op") in ("sum", "max", "mean", "argmax", "var") and not b["prog"][1].get("keepdims")
                          and b["prog"][0]["shape"][0] >= 6),
    "d1-reduce-2d": dict(acts=["Reduce", "ArgReduce"], maxlen=1, preset="2d", sim=False, emit_all=True),
    # C18: every reduction x axes x keepdims x split_every (int and per-axis dict) over int / bool / NaN-carrying sources
    "d1-red": dict(acts=["Reduce", "ArgReduce", "TopK"], maxlen=1, preset="red", sim=False, emit_all=True, workers=4),
    "d2-red-index": dict(acts=["Reduce", "ArgReduce"], acts2=["Index"], maxlen=2, preset="lean", sim=False, lean=True, workers=4),
    "d2-index-red": dict(acts=["Index", "Rechunk", "Transpose", "Elemwise"], acts2=["Reduce", "ArgReduce"], maxlen=2, preset="lean", sim=False,
                         lean=True, workers=4),
    # C19: scans and differences over every chunking of 1-D sources up to 8 elements and two 2-D sources
    "d1-scan": dict(acts=["Cumulative", "Diff"], maxlen=1, preset="win", sim=False, emit_all=True),
    # C12: every basic index of the 1-D sources (all start / stop / step incl. out of range), lean tuples in 2-D / 3-D, integer lists,
    # boolean masks (NumPy and dask), dask integer arrays, vindex, Ellipsis
    "d1-index-1d": dict(acts=["Index", "Take"], maxlen=1, preset="1d", sim=False, smax=3, idxpad=2, emit_all=True, workers=4),
    "d1-index-1d-q": dict(acts=["Index", "Take"], maxlen=1, preset="1d", sim=False, smax=2, idxpad=1, emit_all=True, workers=4),
    "d1-index-none": dict(acts=["IndexNone"], maxlen=1, preset="small", sim=False, emit_all=True, workers=4),
    "d1-index-nd": dict(acts=["Index", "Take"], maxlen=1, preset="lean", sim=False, lean=True, emit_all=True),
    "d1-advindex": dict(acts=["AdvIndex"], maxlen=1, preset="small", sim=False, emit_all=True, workers=4),
    "d2-advindex-after": dict(acts=["Index", "Transpose", "Elemwise", "Rechunk", "MaskSelect", "AdvIndex"], acts2=["AdvIndex", "Index"],
                              maxlen=2, preset="lean", sim=False, lean=True, workers=8),
    # vindex / diagonal / masks as roots and under a consumer (mixed numpy-int / int key coordinates in their layers: C21)
    "d1-diag": dict(acts=["Diagonal"], maxlen=1, preset="small", sim=False, emit_all=True),
    "d2-adv-consumer": dict(acts=["AdvIndex", "Diagonal"], acts2=["Elemwise", "Reduce", "Index", "Transpose"], maxlen=2, preset="lean", sim=False,
                            lean=True, workers=8, observe_all=True),
    # creation arrays with user-pinned names under every operation the optimizer absorbs into them, then a consumer (C06)
    "d2-named-creation": dict(acts=["AdvIndex", "Take", "Index", "Rechunk", "Transpose", "BroadcastTo", "Reshape", "FlipRoll"],
                              acts2=["Reduce", "Elemwise", "Index"], maxlen=2, preset="cre", sim=False, lean=True, workers=4, observe_all=True),
    # C02 grid contract: operands on different grids, a pushed-down operation, then a grid-dependent per-block function
    "d4-grid-contract": dict(acts=["Rechunk"], acts2=["Elemwise"], acts3=["Take", "Index", "Rechunk", "BlockFirst"], maxlen=4, preset="lean1",
                             sim=False, lean=True, workers=8, keep=lambda b: b["prog"][-1]["a"] == "BlockFirst"),
    "d2-blockfirst": dict(acts=["Take", "Index", "Rechunk", "Elemwise", "Transpose", "FlipRoll", "Concat", "AdvIndex"], acts2=["BlockFirst"],
                          maxlen=2, preset="lean", sim=False, lean=True, workers=4),
    # C03: balanced rechunk; explicit rechunk (fused, may inherit the balancing); map_blocks with declared chunks
    "d3-balance-declared": dict(acts=["RechunkSpec"], acts2=["Rechunk"], acts3=["BlockFirst"], maxlen=3, preset="lean1", sim=False, workers=4,
                                keep=lambda b: (b["prog"][-1].get("mode") == "half" and b["prog"][1].get("balance") and b["prog"][2]["x"] == 2
                                                and b["prog"][3]["x"] == 3)),
    # one fusable node under two differently transposed paths (all 216 triples of 3-D permutations x 3 middles): C04, C02, C08
    "d1-diamond": dict(acts=["Diamond"], maxlen=1, preset="cube", sim=False, emit_all=True, workers=4, final_only=True),
    # operands on different grids ; elemwise (chunk unification) ; reduction / scan: the consumer may be constructed under
    # another unification policy than the operand (C09)
    "d3-unify-reduce": dict(acts=["Rechunk"], acts2=["Elemwise"], acts3=["Reduce", "ArgReduce", "Cumulative", "Index"], maxlen=3, preset="lean1",
                            sim=False, lean=True, workers=4),
    # many blocks along one axis: Blelloch / sequential scans and reduction trees over 9..33 unit blocks
    "d1-scan-long": dict(acts=["Cumulative"], maxlen=1, preset="long", sim=False, lean=True, emit_all=True),
    "d1-red-long": dict(acts=["Reduce", "ArgReduce"], maxlen=1, preset="long", sim=False, lean=True, emit_all=True),
    # map_blocks with a harness function / an importable NumPy function / a wrapper borrowing its identity (C07, C06)
    "d1-mapplain": dict(acts=["MapPlain"], maxlen=1, preset="lean", sim=False, lean=True, emit_all=True),
    # fused elementwise chains over creation / from_array sources of 7 elements under ALL 64 grids (C21: fast paths that
    # validate block-independence on a few probe blocks only)
    "d2-cre7-chain": dict(acts=["Elemwise", "Unary"], maxlen=2, preset="cre7", sim=False, lean=True, workers=4),
    # two random bases of one program: equal generator, seed, distribution and shape, different chunkings (C23: the second is
    # its own realization, not the first array's)
    "d2-random-pair": dict(acts=["Random"], acts2=["Random"], maxlen=2, preset="lean1", sim=False, lean=True, workers=4,
                           keep=lambda b: (all(b["prog"][1][k] == b["prog"][2][k] for k in ("gen", "seed", "dist", "shape"))
                                           and b["prog"][1]["chunks"] != b["prog"][2]["chunks"])),
    # a random base combined with a shared intermediate that has a second consumer (reduction / flip): the fused group around
    # the random leaf is rebuilt when the intermediate's own group is substituted (C23: no second realization)
    "d2-random-share": dict(acts=["Random"], acts2=["Share"], maxlen=2, preset="lean1", sim=False, lean=True, workers=4, emit_all=True,
                            final_only=True, keep=lambda b: len(b["prog"]) > 4),
    # one square source read several times, plain and transposed, in one fusable chain (C21 / C02: blocks off the diagonal)
    "d3-sq-chain": dict(acts=["Transpose", "Elemwise"], maxlen=3, preset="sq", sim=False, lean=True, workers=4),
    # a node with two fusable dependencies (iteration order of dependency sets must not leak into names / keys)
    "d1-join": dict(acts=["Join"], maxlen=1, preset="lean", sim=False, lean=True, emit_all=True, final_only=True),
    # einsum patterns that choose index letters while parsing (ellipsis, several contracted indices)
    "d2-einsum": dict(acts=["Index"], acts2=["Einsum"], maxlen=2, preset="lean", sim=False, lean=True, workers=4),
    # two different data-dependent selections of one source, then stacked / concatenated (C28: sizes unknown, shapes differ)
    "d3-unknown-pair": dict(acts=["MaskSelect"], acts2=["MaskSelect"], acts3=["StackMismatch", "Concat"], maxlen=3, preset="1d", sim=False,
                            workers=4),
    # C19: map_overlap with a local stencil, every boundary kind, depth 1-2, every chunking (blocks smaller than the depth included)
    "d1-overlap": dict(acts=["Overlap"], maxlen=1, preset="win", sim=False, emit_all=True),
    # pad with a callable mode that rewrites its vector in place (np.pad's contract), all chunk grids of the 1-D sources
    "d1-pad-udf": dict(acts=["PadRepeat"], maxlen=1, preset="small", sim=False, emit_all=True, keep=lambda b: b["prog"][1].get("mode") == "udf"),
    # random arrays: bases, and every lean operation on a random base (C06, C07, C23)
    "d1-random": dict(acts=["Random"], maxlen=1, preset="lean1", sim=False, lean=False, emit_all=True),
    "d2-random": dict(acts=["Random"], acts2=ALL, maxlen=2, preset="lean1", sim=False, lean=True, workers=8, excl=EXCL_DEEP),
    "d3-random": dict(acts=["Random"], acts2=["Index", "Elemwise", "Transpose", "Reduce"],
                      acts3=["Index", "Elemwise", "Rechunk", "Reduce"], maxlen=3, preset="lean1", sim=False, lean=True,
                      workers=8, excl=EXCL_DEEP),
    # TLC simulation (fixed seed -> a fixed corpus): deep programs with sharing between a random base and other collections
    "sim-random": dict(acts=["Random", "Elemwise", "Reduce", "Index", "Transpose", "Rechunk", "Unary"], maxlen=6, preset="small", sim=True,
                       num=4000, seed=11, lean=True, depth=9),
    "sim-random-share": dict(acts=["Random", "Elemwise", "Reduce"], maxlen=7, preset="rnd", sim=True, num=8000, seed=12, lean=True, depth=10),
    # in-place histories: derive, mutate in place, derive (C11, C04)
    "d3-inplace-dmd": dict(acts=DERIVE, acts2=MUTATE, acts3=DERIVE, maxlen=3, preset="lean1", sim=False, lean=True, workers=4),
    "d3-inplace-mdm": dict(acts=MUTATE, acts2=DERIVE, acts3=MUTATE, maxlen=3, preset="lean1", sim=False, lean=True, workers=4),
    "d3-inplace-ddm": dict(acts=DERIVE, acts2=DERIVE, acts3=MUTATE, maxlen=3, preset="lean1", sim=False, lean=True, workers=4),
    "d3-inplace-mmd": dict(acts=MUTATE, acts2=MUTATE, acts3=DERIVE, maxlen=3, preset="lean1", sim=False, lean=True, workers=4),
    # a masked ufunc with out= applied twice to one target with another in-place action in between (the out operand is an input)
    "d4-where-out": dict(acts=["Rechunk"], acts2=["OutUfunc"], acts3=["MaskSet", "OutUfunc"], maxlen=4, preset="lean1",
                         sim=False, lean=True, workers=8,
                         keep=lambda b: ("where" in b["prog"][2] and b["prog"][-1]["a"] == "OutUfunc"
                                         and {k: v for k, v in b["prog"][-1].items()} == {k: v for k, v in b["prog"][2].items()})),
    "d2-inplace1-all": dict(acts=INPLACE_ACTS, maxlen=2, preset="lean1", sim=False, lean=True, workers=4, observe_all=True),
    "d2-inplace2-all": dict(acts=INPLACE_ACTS, maxlen=2, preset="lean2", sim=False, lean=True, workers=8, observe_all=True),
    "d2-inplace2": dict(acts=INPLACE_ACTS, maxlen=2, preset="lean2", sim=False, lean=True, workers=8),
    "d2-inplace3": dict(acts=INPLACE_ACTS, maxlen=2, preset="lean3", sim=False, lean=True, workers=8),
    "d2-sr2": dict(acts=["Index", "Rechunk"], maxlen=2, preset="lean2", sim=False, lean=True, workers=4, observe_all=True),
    "d2-sr3": dict(acts=["Index", "Rechunk"], maxlen=2, preset="lean3", sim=False, lean=True, workers=4, observe_all=True),
    "d3-sr1-all": dict(acts=["Index", "Rechunk"], maxlen=3, preset="lean1", sim=False, lean=True, workers=4, observe_all=True),
    # rechunk; window; rechunk: reads of one source absorbed at equal grids with different windows (C14 / C06: their names)
    "d3-rsr1": dict(acts=["Rechunk"], acts2=["Index"], acts3=["Rechunk"], maxlen=3, preset="lean1", sim=False, lean=True, workers=4,
                    group=lambda b: json.dumps([a for a in b["prog"] if a["a"] != "Index"], sort_keys=True)),
    # slice / rechunk chains (what gets composed and pushed into sources)
    "d3-sr1": dict(acts=["Index", "Rechunk"], maxlen=3, preset="lean1", sim=False, lean=True, workers=4),
}


def standard_plans(tier, light=1):
    """(corpus, chunk-grid variants per program, stride) of the program-corpus checks.  light > 1 thins the quick tier
    for expensive observers."""
    if tier == "quick":
        return [("d1-1d", 1, 3 * light), ("d1-2d", 1, 8 * light), ("d2-push1", 1, 1), ("d2-push2", 1, 3 * light), ("d2-push3", 1, 3 * light),
                ("d3-sr1", 1, 8), ("d2-lean1", 1, 4 * light), ("d2-lean2", 1, 12 * light), ("d2-lean3", 1, 16 * light)]
    return [("d1-1d-wide", 6, 1), ("d1-2d", 6, 1), ("d2-lean1", 3, 1), ("d2-lean2", 2, 1), ("d2-lean3", 2, 1), ("d3-sr1", 2, 1),
            ("d3-chain1", 1, 2)]


class SubCheck:
    """A view of a Check that labels everything it records with a part name (one check, several source kinds / configurations)."""

    def __init__(self, chk, label):
        self._chk = chk
        self._label = label

    def __getattr__(self, name):
        return getattr(self._chk, name)

    def part(self, name, **kv):
        self._chk.part(f"{self._label}/{name}", **kv)

    def add_tlc(self, res, part=None):
        self._chk.add_tlc(res, f"{self._label}/{part}" if part else None)

    def violation(self, case, clause, matcher_ctx=None):
        return self._chk.violation(dict(case, part=self._label), clause, matcher_ctx)

    def nontrivial(self, key):
        self._chk.nontrivial((self._label, key))

    def sample(self, s, limit=6):
        self._chk.sample(dict(s, part=self._label) if isinstance(s, dict) else s, limit)


def stride_sample(behs, stride, offset=0):
    """deterministic subsample: programs sorted by their JSON text, every stride-th one"""
    if stride <= 1:
        return behs
    keyed = sorted(behs, key=lambda b: json.dumps(b["prog"], sort_keys=True))
    return keyed[offset % stride::stride]


def corpus_kwargs(name):
    """-> (keyword arguments for replay.generate_programs, the corpus's own flags)"""
    kw = dict(CORPORA[name])
    flags = {k: kw.pop(k, None) for k in ("keep", "observe_all", "group", "final_only")}
    return kw, flags


def dev_filter(plans):
    """development aid (never set by a registered command): restrict a plan list to the named corpora"""
    only = os.environ.get("VERIF_DEV_ONLY_CORPUS")
    return [p for p in plans if p[0] in only.split(",")] if only else plans


def run_plans(chk, rd, plans, observers, *, opts=None, module="Trace_Obs", shards=12, on_problem=None, selftest=None,
              accept_verdict=None, on_raised=None):
    """plans: list of (corpus name, max grid variants per program, stride).
    Replays every plan, then validates all recorded observations with TLC in one sharded run.
    Returns total number of validated observations."""
    import time as _t

    opts = dict(opts or {})
    evs, refs, stats = [], {}, {}
    only = os.environ.get("VERIF_DEV_ONLY_CORPUS")      # development aid (never set by a registered command)
    if only:
        plans = [p for p in plans if p[0] in only.split(",")]
    for name, maxvar, stride in plans:
        kw = dict(CORPORA[name])
        observe_all = kw.pop("observe_all", False)
        keep = kw.pop("keep", None)
        group = kw.pop("group", None)
        final_only = kw.pop("final_only", False)
        t0 = _t.time()
        behs, res = replay.generate_programs(rundir=rd, timeout=3000, **kw)
        t_gen = _t.time() - t0
        chk.add_tlc(res, f"gen:{name}")
        nbehs = len(behs)
        if keep is not None:
            behs = [b for b in behs if keep(b)]
        picked = stride_sample(behs, stride, chk.seed)
        del behs
        o = dict(opts)
        if (kw["maxlen"] > 1 or final_only) and "last_only" not in o and not observe_all:
            o["last_only"] = True      # the prefixes are programs of the shallower corpora
        t0 = _t.time()
        out = replay.run_corpus(picked, observers=observers, max_variants=maxvar, seed=chk.seed, opts=o, group=group)
        t_replay = _t.time() - t0
        if out.machinery:
            raise tlc.MachineryError(f"spec/NumPy disagreement ({len(out.machinery)}): {out.machinery[0]}")
        if on_problem is not None:
            for case, clause in out.violations:
                on_problem(dict(case, corpus=name), clause)
        raised = [e for e in out.events if e.get("fn", "").endswith("-raised")]
        mine = [e for e in out.events if not e.get("fn", "").endswith("-raised")]
        if raised and len(raised) > len(mine) and len(raised) >= 20:
            # vacuity guard: a corpus whose observations mostly cannot be taken exercises nothing
            raise tlc.MachineryError(f"corpus {name}: {len(raised)} of {len(raised) + len(mine)} observations raised: {raised[0].get('err')}")
        if on_raised is not None:
            for e in raised:
                on_raised(dict(e, **(e.pop("_ref", None) or {}), corpus=name))
        for e in mine:
            e["id"] = len(evs) + 1
            e["corpus"] = name
            refs[e["id"]] = e.pop("_ref", None)
            evs.append(e)
        stats[name] = dict(wall_generate_s=round(t_gen, 1), wall_replay_s=round(t_replay, 1), behaviours=nbehs,
                           replayed_behaviours=len(picked), programs_replayed=out.n_programs, observations=len(mine),
                           not_observable_raised=len(raised), rejected=0, accepted_special={}, actions=out.stats, stride=stride,
                           max_variants=maxvar)
        if mine:
            smp = dict(mine[len(mine) // 2])
            chk.sample({"corpus": name, "observation": _shorten(smp), "program": (refs[smp["id"]] or {}).get("prog")})
    rejects = []
    t0 = _t.time()
    if evs:
        rejects, results = casemod.validate(module, evs, rd, f"{chk.pid}-obs", shards=shards, timeout=3000, heap="3g",
                                            consts=MODULE_CONSTS.get(module))
        for r in results:
            chk.add_tlc(r, "validate:observations")
    by_id = {e["id"]: e for e in evs}
    for cid, clause in rejects:
        e = by_id[cid]
        st = stats[e["corpus"]]
        if clause.startswith("ok-") or (accept_verdict is not None and accept_verdict(clause)):
            st["accepted_special"][clause] = st["accepted_special"].get(clause, 0) + 1
            continue
        chk.violation(dict(e, **(refs[cid] or {})), clause)
        st["rejected"] += 1
    chk.cov["evaluations"] += len(evs)
    chk.cov["traces_validated_against_impl"] += len(evs)
    for name, st in stats.items():
        chk.part(f"replay:{name}", **st)
    chk.part("validate:observations", wall_s_real=round(_t.time() - t0, 1), shards=shards)
    for e in evs:
        chk.nontrivial(("o", e["id"]))
    if selftest is not None:
        # a sample spread over all corpora (the first events of a sorted corpus can all be of one uninformative kind)
        sample = evs[:300] + evs[300::max(1, (len(evs) - 300) // 900)][:900]
        bad = [b for b in selftest([json.loads(json.dumps(e)) for e in sample]) if b is not None] if evs else []
        if not bad:
            raise tlc.MachineryError("binding self-test did not run (no observation to corrupt)")
        rej, _ = casemod.validate(module, bad, rd, f"{chk.pid}-selftest", shards=2, timeout=900, heap="2g",
                                  consts=MODULE_CONSTS.get(module))
        got = {cid for cid, cl in rej if not (cl.startswith("ok-") or (accept_verdict is not None and accept_verdict(cl)))}
        want = {b["id"] for b in bad}
        if got != want:
            raise tlc.MachineryError(f"binding self-test failed: {len(got)} of {len(want)} corrupted observations rejected")
        chk.part("selftest:corrupted-observations", corrupted=len(want), rejected=len(got), passed=True)
    return len(evs)


def _shorten(o, limit=600):
    s = json.dumps(o, default=str)
    return o if len(s) <= limit else s[:limit] + "..."


def replay_case(chk, path, observers, module="Trace_Obs", opts=None, accept_verdict=None):
    """--replay: rebuild the recorded program with the same grids, observe again, validate again."""
    d = json.load(open(path))
    case = d["case"]
    beh = {"prog": case["prog"], "env": case.get("env") or _recompute_env(case["prog"])}
    emit = []
    try:
        for h in case.get("history") or []:
            # observations that depend on what this process did before (joint computation with an earlier program)
            replay.replay_one({"prog": h["prog"], "env": h["env"]}, [tuple(tuple(ax) for ax in g) for g in h["grids"]], observers,
                              compute_all=False, opts=dict(opts or {}, last_only=False), emit=[])
        replay.replay_one(beh, [tuple(tuple(ax) for ax in g) for g in case["grids"]], observers,
                          compute_all=False, opts=dict(opts or {}, last_only=False), emit=emit)
    except replay.SpecMismatch as ex:
        raise tlc.MachineryError(str(ex))
    evs = [e for e in emit if e.get("fn") == case.get("fn") and e.get("at") == case.get("at")] or emit
    for k, e in enumerate(evs):
        e["id"] = k + 1
        e.pop("_ref", None)
    rd = tlc.new_rundir(chk.pid + "-replay")
    try:
        rejects, results = casemod.validate(module, evs, rd, "replay", shards=1, consts=MODULE_CONSTS.get(module)) if evs else ([], [])
        for r in results:
            chk.add_tlc(r, "validate:replay")
    finally:
        tlc.cleanup(rd)
    chk.cov["evaluations"] += len(evs)
    chk.cov["traces_validated_against_impl"] += len(evs)
    chk.cov["rule"] = "replay of one recorded program"
    chk.sample({"prog": case["prog"]})
    by_id = {e["id"]: e for e in evs}
    for cid, clause in rejects:
        if clause.startswith("ok-") or (accept_verdict is not None and accept_verdict(clause)):
            continue
        chk.violation(dict(by_id[cid], prog=case["prog"], grids=case["grids"], env=beh["env"]), clause)
    return chk.finish()


def _recompute_env(prog):
    """The denotations of a recorded program, recomputed by TLC is not possible without the generator
    state; fall back to NumPy replay values (used only when a replay file lacks env)."""
    raise tlc.MachineryError("replay file has no env")
