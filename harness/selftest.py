"""Setup-time self-test: the specification's definitions agree with CPython/NumPy.

A disagreement here is a machinery error (the spec mis-transcribes Python), never
a violation of a property.
"""
from __future__ import annotations

import sys

from . import cases, tlc


def sel_oracle(rd):
    rows, res = cases.generate("Gen_Plan", dict(Fn="sel_oracle", NMax=5, SMax=3, Pad=2), rd, "sel", decode=lambda t, k: t)
    bad = 0
    for n, a, b, s, sel in rows:
        f = lambda v: None if v == 99 else v
        want = list(range(*slice(f(a), f(b), f(s)).indices(n)))
        if list(sel) != want:
            bad += 1
            if bad < 5:
                print("spec/CPython mismatch", n, a, b, s, sel, want)
    print(f"selftest sel_oracle: {len(rows)} slices compared with CPython, {bad} mismatches")
    return bad == 0


def main():
    rd = tlc.new_rundir("selftest")
    ok = True
    try:
        ok &= sel_oracle(rd)
    finally:
        tlc.cleanup(rd)
    return 0 if ok else 2


if __name__ == "__main__":
    sys.exit(main())
