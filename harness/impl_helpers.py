"""Adapters: one TLC-generated case -> call of the real dask_array helper -> case + out."""
from __future__ import annotations

import math
from numbers import Integral

NONE = 99


def _n(v):
    return None if v == NONE else v


def _j(v):
    return NONE if v is None else int(v)


def ix_to_py(e):
    if e["k"] == "slice":
        return slice(_n(e["start"]), _n(e["stop"]), _n(e["step"]))
    if e["k"] == "int":
        return int(e["i"])
    if e["k"] == "none":
        return None
    raise ValueError(e)


def ix_to_json(v):
    if isinstance(v, slice):
        return {"k": "slice", "start": _j(v.start), "stop": _j(v.stop), "step": _j(v.step)}
    if v is None:
        return {"k": "none"}
    if isinstance(v, Integral):
        return {"k": "int", "i": int(v)}
    raise TypeError(f"cannot encode index element {v!r}")


def _sl(a, b, s):
    return {"k": "slice", "start": a, "stop": b, "step": s}


def decode(fn, t, cid):
    """compact tuple emitted by Gen_Plan -> case record"""
    if fn == "normalize_slice":
        return {"id": cid, "fn": fn, "n": t[0], "e": _sl(t[1], t[2], t[3])}
    if fn == "posify_index":
        return {"id": cid, "fn": fn, "n": t[0], "e": {"k": "int", "i": t[1]}}
    if fn == "slice_plan":
        e = _sl(t[3], t[4], t[5]) if t[2] == 0 else {"k": "int", "i": t[3]}
        return {"id": cid, "fn": fn, "n": t[0], "c": t[1], "e": e}
    if fn in ("fuse_slice", "fuse_slice_raw"):
        b = _sl(t[5], t[6], t[7]) if t[4] == 0 else {"k": "int", "i": t[5]}
        return {"id": cid, "fn": fn, "n": t[0], "a": _sl(t[1], t[2], t[3]), "b": b}
    if fn == "compose_slices":
        return {"id": cid, "fn": fn, "n": t[0], "a": _sl(t[1], t[2], t[3]), "b": _sl(t[4], t[5], t[6])}
    raise KeyError(fn)


def normalize_slice(c):
    from dask_array.slicing._utils import normalize_slice as f

    out = f(ix_to_py(c["e"]), c["n"])
    return dict(c, out=ix_to_json(out))


def posify_index(c):
    from dask_array.slicing._utils import posify_index as f

    return dict(c, out=int(f(c["n"], ix_to_py(c["e"]))))


def slice_plan(c):
    """normalize_index -> _slice_1d (+ new_blockdim, _compute_sliced_chunks)."""
    from dask_array.slicing._basic import _compute_sliced_chunks
    from dask_array.slicing._utils import _slice_1d, new_blockdim, normalize_index

    n = c["n"]
    lengths = tuple(c["c"])
    e = ix_to_py(c["e"])
    (idx,) = normalize_index(e, (n,))
    plan = _slice_1d(n, lengths, idx)
    out = {"plan": [[int(b), ix_to_json(v)] for b, v in plan.items()], "blockdim": [], "sliced": [], "has_sliced": 0}
    if isinstance(idx, slice):
        out["blockdim"] = [int(v) for v in new_blockdim(n, list(lengths), idx)]
        # _compute_sliced_chunks is reached with the (normalised) unit-step slices that
        # FromArray._accept_slice accepts
        if idx.step in (None, 1):
            out["sliced"] = [int(v) for v in _compute_sliced_chunks(lengths, idx, n)]
            out["has_sliced"] = 1
    return dict(c, out=out)


def fuse_slice(c):
    """normalised a, then b normalised against the length a selects -> fuse_slice."""
    from dask_array.slicing._utils import fuse_slice as f
    from dask_array.slicing._utils import normalize_index

    n = c["n"]
    (a,) = normalize_index(ix_to_py(c["a"]), (n,))
    m = len(range(*ix_to_py(c["a"]).indices(n)))
    (b,) = normalize_index(ix_to_py(c["b"]), (m,))
    try:
        r = f(a, b)
    except NotImplementedError:
        return dict(c, out={"declined": 1, "r": {"k": "none"}})
    return dict(c, out={"declined": 0, "r": ix_to_json(r)})


def fuse_slice_raw(c):
    """fuse_slice on the indices exactly as written (it may decline)."""
    from dask_array.slicing._utils import fuse_slice as f

    try:
        r = f(ix_to_py(c["a"]), ix_to_py(c["b"]))
    except NotImplementedError:
        return dict(c, out={"declined": 1, "r": {"k": "none"}})
    return dict(c, out={"declined": 0, "r": ix_to_json(r)})


def compose_slices(c):
    from dask_array.slicing._basic import _compose_slices as f

    r = f(ix_to_py(c["a"]), ix_to_py(c["b"]), c["n"])
    return dict(c, out=ix_to_json(r))


# ---------------------------------------------------------------------------- C15
def decode_plan(fn, t, cid):
    if fn == "plan_rechunk":
        old, new, cfg = t
        return {"id": cid, "fn": fn, "old": old, "new": new, "itemsize": cfg[0], "threshold": cfg[1],
                "limit": cfg[2], "degree": cfg[3]}
    if fn in ("merge_to_number", "divide_to_width"):
        return {"id": cid, "fn": fn, "c": t[0], "k": t[1]}
    if fn == "normalize_chunks":
        sh, sp, cfg, prev = t
        return {"id": cid, "fn": fn, "shape": sh, "spec": sp, "itemsize": cfg[0], "limit": cfg[1], "prev": prev}
    if fn == "unify_chunks":
        ops, pol, lim = t
        return {"id": cid, "fn": fn, "ops": [{"grid": o[0], "labels": o[1], "itemsize": o[2]} for o in ops],
                "policy": pol, "limit": lim}
    if fn == "moved_fraction":
        return {"id": cid, "fn": fn, "src": t[0], "dst": t[1]}
    raise KeyError(fn)


def _grid(g):
    return tuple(tuple(int(v) for v in ax) for ax in g)


def plan_rechunk(c):
    import dask

    from dask_array._rechunk import old_to_new, plan_rechunk as f

    old, new = _grid(c["old"]), _grid(c["new"])
    with dask.config.set({"array.rechunk.degree-limit": c["degree"]}):
        plan = f(old, new, c["itemsize"], threshold=c["threshold"], block_size_limit=c["limit"])
    with dask.config.set({"array.rechunk.degree-limit": 10**9}):
        plan_nd = f(old, new, c["itemsize"], threshold=c["threshold"], block_size_limit=c["limit"])
    cw = old_to_new(old, new)
    cwj = [[[[int(b), int(sl.start), int(sl.stop)] for b, sl in nb] for nb in ax] for ax in cw]
    return dict(c, out={"plan": [[list(ax) for ax in st] for st in plan], "cw": cwj},
                plan_without_degree_bound=[[list(ax) for ax in st] for st in plan_nd])


def merge_to_number(c):
    from dask_array._rechunk import merge_to_number as f

    return dict(c, out=[int(v) for v in f(tuple(c["c"]), c["k"])])


def divide_to_width(c):
    from dask_array._rechunk import divide_to_width as f

    return dict(c, out=[int(v) for v in f(tuple(c["c"]), c["k"])])


# ---------------------------------------------------------------------------- C16
def _spec_py(sp, limit):
    k, v = sp
    if k == 0:
        return int(v)
    if k == 1:
        return -1
    if k == 2:
        return None
    if k == 3:
        return "auto"
    if k == 4:
        return tuple(int(x) for x in v)
    if k == 5:
        return f"{limit}B"
    raise ValueError(sp)


def normalize_chunks(c):
    """Calls normalize_chunks in tuple form and (when possible) dict form; both must agree."""
    import warnings

    import numpy as np

    from dask_array._core_utils import normalize_chunks as f

    shape = tuple(c["shape"])
    spec = tuple(_spec_py(sp, c["limit"]) for sp in c["spec"])
    dtype = {1: np.uint8, 4: np.float32, 8: np.float64}[c["itemsize"]]
    has_bytes = any(sp[0] == 5 for sp in c["spec"])
    limit = None if has_bytes else c["limit"]
    prev = _grid(c["prev"]) if c["prev"] else None
    outs = []
    forms = [spec, dict(enumerate(spec))]
    if len(set(map(repr, spec))) == 1 and not isinstance(spec[0], tuple) and spec[0] is not None:
        forms.append(spec[0])
    for form in forms:
        try:
            with warnings.catch_warnings():
                warnings.simplefilter("ignore")
                r = f(form, shape=shape, limit=limit, dtype=dtype, previous_chunks=prev)
            outs.append([[int(v) for v in ax] for ax in r])
        except Exception as ex:  # a rejected specification is fine
            outs.append(("raised", type(ex).__name__))
    # the same specification with the byte limit taken from the configuration (array.chunk-size) instead of the argument:
    # the limit in effect when the call is made is what counts (cases with other limits run before and after in this process)
    config_agrees = True
    if limit is not None:
        import dask

        try:
            with dask.config.set({"array.chunk-size": f"{limit}B"}), warnings.catch_warnings():
                warnings.simplefilter("ignore")
                r = f(spec, shape=shape, limit=None, dtype=dtype, previous_chunks=prev)
            outs.append([[int(v) for v in ax] for ax in r])
        except Exception as ex:
            outs.append(("raised", type(ex).__name__))
        # ... and the same specification again under ANOTHER configured limit: what counts is the configuration in effect at the call
        def both(lim):
            res = []
            for kw, cfg in ((dict(limit=lim), {}), (dict(limit=None), {"array.chunk-size": f"{lim}B"})):
                try:
                    with dask.config.set(cfg), warnings.catch_warnings():
                        warnings.simplefilter("ignore")
                        res.append([[int(v) for v in ax] for ax in f(spec, shape=shape, dtype=dtype, previous_chunks=prev, **kw)])
                except Exception as ex:
                    res.append(("raised", type(ex).__name__))
            return res
        a, b = both(4 * limit)
        config_agrees = a == b
    first = outs[0]
    agree = all(o == first for o in outs) and config_agrees
    if isinstance(first, tuple):
        return dict(c, out={"raised": 1, "chunks": []}, forms_agree=agree)
    return dict(c, out={"raised": 0, "chunks": first}, forms_agree=agree, all_forms=[o if not isinstance(o, tuple) else list(o) for o in outs])


# ---------------------------------------------------------------------------- C17
def unify_chunks(c):
    import warnings

    import dask
    import numpy as np

    import dask_array as da
    from dask_array._expr import unify_chunks_expr

    arrays = []
    args = []
    for k, o in enumerate(c["ops"]):
        g = _grid(o["grid"])
        shape = tuple(sum(ax) for ax in g)
        dt = {1: np.uint8, 4: np.float32, 8: np.float64}[o["itemsize"]]
        a = da.from_array(np.arange(int(np.prod(shape)), dtype=dt).reshape(shape) + k, chunks=g)
        arrays.append(a)
        args += [a.expr, tuple(o["labels"])]
    with dask.config.set({"array.unify-chunks-policy": c["policy"], "array.unify-chunks-limit": c["limit"]}):
        try:
            with warnings.catch_warnings():
                warnings.simplefilter("ignore")
                chunkss, arrs, _changed = unify_chunks_expr(*args)
        except Exception as ex:
            return dict(c, out={"raised": 1, "common": [], "grids": []}, exc=type(ex).__name__)
    common = [[int(lab), [int(v) for v in ch]] for lab, ch in chunkss.items()]
    grids = [[[int(v) for v in ax] for ax in a.chunks] for a in arrs]
    return dict(c, out={"raised": 0, "common": common, "grids": grids})


# ---------------------------------------------------------------------------- C27
def moved_fraction(c):
    from dask_array._expr import moved_fraction as f

    src, dst = tuple(c["src"]), tuple(c["dst"])
    v = f(src, dst)
    den = sum(src)
    num = round(v * den)
    exact = 1 if abs(v - num / den) < 1e-12 else 0
    if not exact:
        # keep the sign / magnitude facts the property talks about
        import math

        num = math.floor(v * den) if v >= 0 else math.floor(v * den)
    return dict(c, out={"num": int(num), "den": int(den), "exact": exact})
