"""Adapters: one TLC-generated case -> call of the real dask_array helper -> case + out."""
from __future__ import annotations

import math
from numbers import Integral

NONE = 99


def _n(v):
    return None if v == NONE else v


def _j(v):
    return NONE if v is None else int(v)


def ix_to_py(e):
    if e["k"] == "slice":
        return slice(_n(e["start"]), _n(e["stop"]), _n(e["step"]))
    if e["k"] == "int":
        return int(e["i"])
    if e["k"] == "none":
        return None
    raise ValueError(e)


def ix_to_json(v):
    if isinstance(v, slice):
        return {"k": "slice", "start": _j(v.start), "stop": _j(v.stop), "step": _j(v.step)}
    if v is None:
        return {"k": "none"}
    if isinstance(v, Integral):
        return {"k": "int", "i": int(v)}
    raise TypeError(f"cannot encode index element {v!r}")


def _sl(a, b, s):
    return {"k": "slice", "start": a, "stop": b, "step": s}


def decode(fn, t, cid):
    """compact tuple emitted by Gen_Plan -> case record"""
    if fn == "normalize_slice":
        return {"id": cid, "fn": fn, "n": t[0], "e": _sl(t[1], t[2], t[3])}
    if fn == "posify_index":
        return {"id": cid, "fn": fn, "n": t[0], "e": {"k": "int", "i": t[1]}}
    if fn == "slice_plan":
        e = _sl(t[3], t[4], t[5]) if t[2] == 0 else {"k": "int", "i": t[3]}
        return {"id": cid, "fn": fn, "n": t[0], "c": t[1], "e": e}
    if fn in ("fuse_slice", "fuse_slice_raw"):
        b = _sl(t[5], t[6], t[7]) if t[4] == 0 else {"k": "int", "i": t[5]}
        return {"id": cid, "fn": fn, "n": t[0], "a": _sl(t[1], t[2], t[3]), "b": b}
    if fn == "compose_slices":
        return {"id": cid, "fn": fn, "n": t[0], "a": _sl(t[1], t[2], t[3]), "b": _sl(t[4], t[5], t[6])}
    raise KeyError(fn)


def normalize_slice(c):
    from dask_array.slicing._utils import normalize_slice as f

    out = f(ix_to_py(c["e"]), c["n"])
    return dict(c, out=ix_to_json(out))


def posify_index(c):
    from dask_array.slicing._utils import posify_index as f

    return dict(c, out=int(f(c["n"], ix_to_py(c["e"]))))


def slice_plan(c):
    """normalize_index -> _slice_1d (+ new_blockdim, _compute_sliced_chunks)."""
    from dask_array.slicing._basic import _compute_sliced_chunks
    from dask_array.slicing._utils import _slice_1d, new_blockdim, normalize_index

    n = c["n"]
    lengths = tuple(c["c"])
    e = ix_to_py(c["e"])
    (idx,) = normalize_index(e, (n,))
    plan = _slice_1d(n, lengths, idx)
    out = {"plan": [[int(b), ix_to_json(v)] for b, v in plan.items()], "blockdim": [], "sliced": [], "has_sliced": 0}
    if isinstance(idx, slice):
        out["blockdim"] = [int(v) for v in new_blockdim(n, list(lengths), idx)]
        # _compute_sliced_chunks is reached with the (normalised) unit-step slices that
        # FromArray._accept_slice accepts
        if idx.step in (None, 1):
            out["sliced"] = [int(v) for v in _compute_sliced_chunks(lengths, idx, n)]
            out["has_sliced"] = 1
    return dict(c, out=out)


def fuse_slice(c):
    """normalised a, then b normalised against the length a selects -> fuse_slice."""
    from dask_array.slicing._utils import fuse_slice as f
    from dask_array.slicing._utils import normalize_index

    n = c["n"]
    (a,) = normalize_index(ix_to_py(c["a"]), (n,))
    m = len(range(*ix_to_py(c["a"]).indices(n)))
    (b,) = normalize_index(ix_to_py(c["b"]), (m,))
    try:
        r = f(a, b)
    except NotImplementedError:
        return dict(c, out={"declined": 1, "r": {"k": "none"}})
    return dict(c, out={"declined": 0, "r": ix_to_json(r)})


def fuse_slice_raw(c):
    """fuse_slice on the indices exactly as written (it may decline)."""
    from dask_array.slicing._utils import fuse_slice as f

    try:
        r = f(ix_to_py(c["a"]), ix_to_py(c["b"]))
    except NotImplementedError:
        return dict(c, out={"declined": 1, "r": {"k": "none"}})
    return dict(c, out={"declined": 0, "r": ix_to_json(r)})


def compose_slices(c):
    from dask_array.slicing._basic import _compose_slices as f

    r = f(ix_to_py(c["a"]), ix_to_py(c["b"]), c["n"])
    return dict(c, out=ix_to_json(r))
