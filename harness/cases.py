"""Helper-function loop: TLC enumerates inputs -> real function -> TLC validates outputs."""
from __future__ import annotations

import json
import multiprocessing as mp
import os

from . import tlc
from .common import chunk_list


GEN_PLAN_DEFAULTS = dict(NMax=0, SMax=0, Pad=0, Preset="q")


def _cfg(consts: dict, extra: str = "") -> str:
    lines = ["INIT Init", "NEXT Next", "CHECK_DEADLOCK FALSE"]
    if consts:
        lines.append("CONSTANTS")
        for k, v in consts.items():
            if isinstance(v, str) and v.startswith("{"):
                lines.append(f"  {k} = {v}")          # a set literal
            elif isinstance(v, str):
                lines.append(f'  {k} = "{v}"')
            else:
                lines.append(f"  {k} = {v}")
    return "\n".join(lines) + "\n" + extra


def generate(module: str, consts: dict, rundir: str, tag: str, timeout=600, heap="4g", decode=None):
    """Run a Gen_* module; returns (cases, TLCResult)."""
    out = os.path.join(rundir, f"gen-{tag}.ndjson")
    if module == "Gen_Plan":
        # every CONSTANT of Gen_Plan must be assigned, also the ones a family does not use
        consts = dict(GEN_PLAN_DEFAULTS, **consts)
    res = tlc.run_tlc(module, _cfg(consts), env={"OUT": out}, rundir=rundir, timeout=timeout, heap=heap)
    tlc.require_clean(res, f"{module} {consts}")
    if not res.tuples("GENERATED"):
        raise tlc.MachineryError(f"{module} did not generate: {res.out[-2000:]}")
    cases = [json.loads(l) for l in open(out) if l.strip()]
    if len(cases) != res.tuples("GENERATED")[0][1]:
        raise tlc.MachineryError("generated count mismatch")
    if decode is not None:
        cases = [decode(c, k + 1) for k, c in enumerate(cases)]
    else:
        for k, c in enumerate(cases):
            c["id"] = k + 1
    return cases, res


def _apply_chunk(args):
    fn_path, chunk = args
    modname, fname = fn_path.rsplit(":", 1)
    import importlib

    f = getattr(importlib.import_module(modname), fname)
    return [f(c) for c in chunk]


def apply_impl(fn_path: str, cases, procs: int = 16):
    """Call the implementation adapter `module:function` on every case (parallel)."""
    if len(cases) < 200:
        return _apply_chunk((fn_path, cases))
    chunks = chunk_list(cases, procs * 4)
    import gc

    ctx = mp.get_context("fork")
    gc.collect()
    gc.freeze()
    try:
        with ctx.Pool(procs) as pool:
            parts = pool.map(_apply_chunk, [(fn_path, ch) for ch in chunks])
    finally:
        gc.unfreeze()
    return [c for p in parts for c in p]


def validate(module: str, cases, rundir: str, tag: str, shards: int = 4, consts: dict | None = None,
             timeout=900, heap="2g", invariants=("Checked",), post="AllConsumed"):
    """Shard cases over TLC JVMs running a Trace_* module.

    Returns (rejects: list[(id, clause)], results).  Raises MachineryError if
    some shard did not consume all its cases.
    """
    parts = chunk_list(cases, shards)
    jobs = []
    extra = "".join(f"INVARIANT {i}\n" for i in invariants) + (f"POSTCONDITION {post}\n" if post else "")
    for k, part in enumerate(parts):
        p = os.path.join(rundir, f"val-{tag}-{k}.ndjson")
        tlc.write_ndjson(p, part)
        jobs.append((tlc.run_tlc, (module, _cfg(consts or {}, extra)),
                     dict(env={"CASES": p}, rundir=rundir, timeout=timeout, heap=heap)))
    results = tlc.run_many(jobs)
    rejects = []
    for part, res in zip(parts, results):
        tlc.require_clean(res, f"{module} validate {tag}")
        cons = res.tuples("CONSUMED")
        if not cons or cons[0][1] != len(part) or cons[0][2] != len(part):
            raise tlc.MachineryError(f"{module}: shard consumed {cons} of {len(part)} cases\n{res.out[-1500:]}")
        for t in res.tuples("REJECT"):
            rejects.append((t[1], t[2]))
    return rejects, results
