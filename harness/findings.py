"""Matchers for known findings (committed in known_findings.jsonl, read-only at run time).

A violation is attributed to a finding only if the finding's named matcher
accepts BOTH the case (trigger) and the observed failing clause (symptom).
"""
from __future__ import annotations

MATCHERS = {}


def matcher(name):
    def deco(fn):
        MATCHERS[name] = fn
        return fn

    return deco


def matches(finding: dict, pid: str, case, clause: str, ctx: dict) -> bool:
    fn = MATCHERS.get(finding.get("matcher"))
    if fn is None:
        return False
    try:
        return bool(fn(finding, pid, case, clause, ctx))
    except Exception:
        return False
