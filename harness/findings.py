"""Matchers for known findings (committed in known_findings.jsonl, read-only at run time).

A violation is attributed to a finding only if the finding's named matcher
accepts BOTH the case (trigger) and the observed failing clause (symptom).
"""
from __future__ import annotations

MATCHERS = {}


def matcher(name):
    def deco(fn):
        MATCHERS[name] = fn
        return fn

    return deco


def matches(finding: dict, pid: str, case, clause: str, ctx: dict) -> bool:
    fn = MATCHERS.get(finding.get("matcher"))
    if fn is None:
        return False
    try:
        return bool(fn(finding, pid, case, clause, ctx))
    except Exception:
        return False


def _maxblock(grid):
    out = 1
    for ax in grid:
        out *= max(ax) if ax else 0
    return out


@matcher("bound_degree_exceeds_budget")
def _f05(f, pid, case, clause, ctx):
    """C15: only steps inserted by _bound_degree (absent from the plan computed without a
    degree bound) exceed the budget, by at most the recorded factor, under a small degree limit."""
    if not clause.endswith("step-exceeds-block-budget") or case.get("fn") != "plan_rechunk":
        return False
    if case["degree"] > f["params"]["max_degree_limit"]:
        return False
    base = case["plan_without_degree_bound"]
    budget = max(case["limit"] / case["itemsize"], _maxblock(case["old"]), _maxblock(case["new"]))
    if any(_maxblock(st) > budget for st in base):
        return False  # the size planner itself broke the budget: not this finding
    for st in case["out"]["plan"]:
        mb = _maxblock(st)
        if mb > budget:
            if st in base or mb > f["params"]["max_ratio"] * budget:
                return False
    return True


@matcher("auto_chunks_previous_tolerance")
def _f03(f, pid, case, clause, ctx):
    """C16: with previous_chunks, 'auto' keeps/merges previous chunks up to
    array.chunk-size-tolerance x the limit."""
    if not clause.endswith("auto-block-exceeds-byte-limit") or case.get("fn") != "normalize_chunks":
        return False
    if not case.get("prev"):
        return False
    prod = case["itemsize"]
    for ax in case["out"]["chunks"]:
        prod *= max(ax)
    return prod <= f["params"]["tolerance"] * case["limit"]
