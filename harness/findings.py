"""Matchers for known findings (committed in known_findings.jsonl, read-only at run time).

A violation is attributed to a finding only if the finding's named matcher
accepts BOTH the case (trigger) and the observed failing clause (symptom).
"""
from __future__ import annotations

MATCHERS = {}


def matcher(name):
    def deco(fn):
        MATCHERS[name] = fn
        return fn

    return deco


def matches(finding: dict, pid: str, case, clause: str, ctx: dict) -> bool:
    fn = MATCHERS.get(finding.get("matcher"))
    if fn is None:
        return False
    try:
        return bool(fn(finding, pid, case, clause, ctx))
    except Exception:
        return False


def _bounds(ax):
    out, acc = {0}, 0
    for v in ax:
        acc += v
        out.add(acc)
    return out


def _maxblock(grid):
    out = 1
    for ax in grid:
        out *= max(ax) if ax else 0
    return out


@matcher("bound_degree_exceeds_budget")
def _f05(f, pid, case, clause, ctx):
    """C15: only steps inserted by _bound_degree (absent from the plan computed without a
    degree bound, every axis a merge of the old or the new axis chunking) exceed the budget, under a small degree limit."""
    if not clause.endswith("step-exceeds-block-budget") or case.get("fn") != "plan_rechunk":
        return False
    if case["degree"] > f["params"]["max_degree_limit"]:
        return False
    base = case["plan_without_degree_bound"]
    budget = max(case["limit"] / case["itemsize"], _maxblock(case["old"]), _maxblock(case["new"]))
    if any(_maxblock(st) > budget for st in base):
        return False  # the size planner itself broke the budget: not this finding
    for st in case["out"]["plan"]:
        if _maxblock(st) > budget:
            # an inserted step: absent from the unbounded plan, every axis a merge of the old or new axis chunking
            if st in base:
                return False
            for ax, o, n in zip(st, case["old"], case["new"]):
                if not (_bounds(ax) <= _bounds(o) or _bounds(ax) <= _bounds(n)):
                    return False
    return True


@matcher("auto_chunks_previous_tolerance")
def _f03(f, pid, case, clause, ctx):
    """C16: with previous_chunks, 'auto' keeps/merges previous chunks up to
    array.chunk-size-tolerance x the limit."""
    if not clause.endswith("auto-block-exceeds-byte-limit") or case.get("fn") != "normalize_chunks":
        return False
    if not case.get("prev"):
        return False
    prod = case["itemsize"]
    for ax in case["out"]["chunks"]:
        prod *= max(ax)
    return prod <= f["params"]["tolerance"] * case["limit"]


# ---------------------------------------------------------------------------- program replay (C01 ...)
def _act(case):
    return case.get("act") or {}


def _xshape(case):
    return case["operand_shapes"][str(_act(case)["x"])]


def _shapes_in(detail):
    import re

    return [tuple(int(v) for v in m.replace(" ", "").split(",") if v) for m in re.findall(r"\(([\d, ]*)\)", detail)]


@matcher("pad_width_exceeds_axis")
def _f11(f, pid, case, clause, ctx):
    """pad(mode='wrap') with a pad width larger than the axis: each side is filled with at most one
    copy of the axis, so the padded axis is shorter than NumPy's."""
    act = _act(case)
    if act.get("a") != "Pad" or act.get("mode") not in f["params"]["modes"] or clause not in ("shape", "advertised-shape"):
        return False
    xs = _xshape(case)
    ax = act["axis"] - 1
    n = xs[ax]
    if max(act["before"], act["after"]) <= n:
        return False
    shapes = _shapes_in(case["detail"])
    if len(shapes) != 2:
        return False
    got, want = shapes
    short = list(xs)
    short[ax] = n + min(act["before"], n) + min(act["after"], n)
    return list(got) == short and list(want) != short


@matcher("repeat_empty_axis")
def _f12(f, pid, case, clause, ctx):
    act = _act(case)
    return (act.get("a") == "Repeat" and act["reps"] >= 2 and _xshape(case)[act["axis"] - 1] == 0 and clause == "raised"
            and "Need array(s) to concatenate" in case["detail"])


@matcher("sliding_window_zero_length_axis")
def _f13(f, pid, case, clause, ctx):
    act = _act(case)
    return (act.get("a") in ("SlidingWindow", "WindowReduce") and 0 in _xshape(case) and clause == "raised"
            and "overlapping depth" in case["detail"] and "larger than your array 0." in case["detail"])


@matcher("minmax_zero_size_kept_axis")
def _f14(f, pid, case, clause, ctx):
    act = _act(case)
    if act.get("a") != "Reduce" or act.get("op") not in f["params"]["ops"] or clause != "raised":
        return False
    xs = _xshape(case)
    if 0 not in xs or any(xs[a - 1] == 0 for a in act["axes"]):
        return False
    return "zero-size array to reduction operation" in case["detail"]


@matcher("argflat_tie_block_order")
def _f15(f, pid, case, clause, ctx):
    act = _act(case)
    return (act.get("a") == "ArgFlat" and len(_xshape(case)) >= 2
            and clause == "values-other-occurrence-of-the-extreme-value")


@matcher("blocks_alias_reports_transfer")
def _f06(f, pid, case, clause, ctx):
    """C27: Blocks (x.blocks[...], every task an Alias) inherits the generic estimate."""
    return clause == "alias-moves-bytes" and " node Blocks: " in case.get("detail", "")


# ---------------------------------------------------------------------------- optimizer (C08 ...)
def _acts(case):
    return [a.get("a") for a in case.get("prog", []) if a.get("a") != "Source"]


@matcher("second_optimize_simplifies_lowering_products")
def _f10(f, pid, case, clause, ctx):
    """C08: lowering a rechunk / unification next to a concatenate of slices (pad, roll) creates slice nodes that
    only a second optimize() simplifies: optimize(optimize(e)) is smaller, and is a fixpoint."""
    if clause != "optimize-not-idempotent" or case.get("fn") != "optimize":
        return False
    rules = case.get("second_pass_rules")
    if not rules or not set(rules) <= set(f["params"]["second_pass_rules"]):
        return False          # a rewrite outside the known set fired in the second pass: not this finding
    return (case.get("simp1") == case.get("simp2") and case.get("low1") == case.get("low2")
            and case.get("opt3") == case.get("opt2") and case.get("nodes2", 10 ** 9) <= case.get("nodes1", 0))


@matcher("setitem_int_then_reversed_slice")
def _f20(f, pid, case, clause, ctx):
    def bad(idx):
        seen_int = False
        for e in idx:
            if e["k"] == "int":
                seen_int = True
            elif e["k"] == "slice" and e["step"] != 99 and e["step"] < 0 and seen_int:
                return True
        return False

    if not any(a.get("a") == "SetItem" and bad(a["idx"]) for a in case.get("prog", [])):
        return False
    txt = case.get("detail", "") + case.get("err", "") + str(case.get("opt_err", "")) + str(case.get("raw_err", ""))
    return "IndexError" in txt and "tuple index out of range" in txt


@matcher("generic_dask_optimizer_renames_outputs")
def _f01(f, pid, case, clause, ctx):
    """C05: dask.optimize(x) / dask.persist(x) hand the raw expression to dask's generic optimizer; when that renames the
    output keys, from_graph has to guess the output blocks and raises or picks an intermediate layer."""
    if case.get("fn") != "entry" or case.get("generic_graph_is_own_graph") == 1:
        return False
    bad = set()
    ref = case["entries"][0]["val"]
    for e in case["entries"]:
        v = e["val"]
        if v["kind"] in ("raised", "o") or v["shape"] != ref["shape"] or v["data"] != ref["data"] or v["kind"] != ref["kind"]:
            bad.add(e["entry"])
        elif e["keeps"] and (e["chunks"] != case["adv"]["chunks"] or e["name"] != case["adv"]["name"] or e["dtype"] != case["adv"]["dtype"]):
            bad.add(e["entry"])
    return bool(bad) and bad <= set(f["params"]["entries"])


@matcher("slice_through_sliding_window_view_empties_input")
def _f21(f, pid, case, clause, ctx):
    prog = case.get("prog", [])
    outs = {a.get("out") for a in prog if a.get("a") == "SlidingWindow"}
    if not any(a.get("a") == "Index" and a.get("x") in outs for a in prog):
        return False
    txt = " ".join(str(case.get(k, "")) for k in ("detail", "err", "opt_err"))
    txt += " ".join(str(p.get("val", {}).get("err", "")) for p in case.get("phases", []))
    txt += " ".join(str(o.get("val", {}).get("err", "")) for o in case.get("obs", []))      # C09: raises under optimize-graph = True only
    return "window shape cannot be larger than input array shape" in txt


@matcher("dtype_inference_calls_user_function_on_fake_block")
def _f22(f, pid, case, clause, ctx):
    if case.get("part") != "mapblocks-infer-meta" or not clause.startswith("user-function-called-on-data-outside-execution:constructing"):
        return False
    bad = [e for e in case.get("ev", []) if e["e"] == "call" and e["phase"] != "executing" and e["size"] > 0]
    reads = [e for e in case.get("ev", []) if e["e"] == "read" and e["phase"] != "executing"]
    return bool(bad) and all(e["size"] == 1 and e["phase"] == "constructing" for e in bad)


@matcher("store_twin_targets_equal_content")
def _f24(f, pid, case, clause, ctx):
    return bool(case.get("call", {}).get("twin")) and clause == "target-differs-from-source-written-into-region"


@matcher("reshape_zero_size_several_chunks")
def _f25(f, pid, case, clause, ctx):
    prog = case.get("prog", [])
    if not any(a.get("a") == "Reshape" and 0 in a.get("shape", []) and any(v > 1 for v in a["shape"]) for a in prog):
        return False
    keys = ("shape", "value", "block", "rank", "grid")
    return any(k in clause for k in keys)


@matcher("lowering_cache_serves_unification_of_another_policy")
def _f26(f, pid, case, clause, ctx):
    import ast

    if case.get("fn") != "history" or not clause.startswith("value-depends-on-history-or-configuration"):
        return False
    if not any(a.get("a") == "Dot" for a in case.get("prog", [])):
        return False
    try:
        cfgs = [ast.literal_eval(x) for x in case.get("cfgs", [])]
    except Exception:
        return False
    return len(cfgs) >= 2 and any(any(c[k] != cfgs[0][k] for c in cfgs[1:]) for k in f["params"]["keys"])


@matcher("unification_policy_read_at_metadata_and_again_at_lowering")
def _f36(f, pid, case, clause, ctx):
    import ast

    if case.get("fn") != "history" or not (clause.startswith("value-depends-on-history-or-configuration")
                                            or clause.startswith("raises-depending-on-history-or-configuration")):
        return False
    if clause.startswith("raises") and not any("Chunks do not add up" in str(o.get("val", {}).get("err", "")) or "Missing dependency" in str(o.get("val", {}).get("err", ""))
                                               for o in case.get("obs", [])):
        return False
    prog = case.get("prog", [])
    # trigger: an operation that unifies the chunks of two array operands (elementwise with two arrays, where) ...
    if not any((a.get("a") == "Elemwise" and a.get("y")) or a.get("a") == "Where" for a in prog):
        return False
    try:
        cfgs = [ast.literal_eval(x) for x in case.get("cfgs", [])]
    except Exception:
        return False
    # ... observed under configurations that differ in the unification policy / limit
    return len(cfgs) >= 2 and any(any(c[k] != cfgs[0][k] for c in cfgs[1:]) for k in f["params"]["keys"])


@matcher("frisky_fast_path_probes_block_independence_on_a_sample")
def _f37(f, pid, case, clause, ctx):
    if case.get("fn") != "records" or clause != "records-block-value-differs-from-the-dask-graph":
        return False
    prog = case.get("prog", [])
    # trigger: a creation array (its block tasks carry the block shape as a literal) whose grid has, at a position the
    # probe sample (first, last, middle block) never visits, a block of another size than block 0
    if not prog or prog[0].get("kind") != "c":
        return False
    for ax in (case.get("grids") or [[]])[0]:
        n = len(ax)
        probed = {0, n - 1, n // 2}
        if any(ax[i] != ax[0] for i in range(n) if i not in probed):
            return True
    return False


@matcher("dask_int_array_index_out_of_bounds_wraps")
def _f27(f, pid, case, clause, ctx):
    act = _act(case)
    return (act.get("a") == "AdvIndex" and act.get("mode") == "intarr" and act.get("lib") == "da" and not act.get("ok")
            and clause == "invalid-operation-did-not-raise")


@matcher("vindex_with_kept_axis")
def _f28(f, pid, case, clause, ctx):
    act = _act(case)
    if act.get("a") != "AdvIndex" or act.get("mode") != "vindex" or not any(len(l) == 0 for l in act.get("lists", [])):
        return False
    d = case.get("detail", "")
    return (clause == "raised" and "could not broadcast input array" in d) or clause in ("shape", "advertised-shape")


@matcher("slice_after_dask_int_array_index")
def _f29(f, pid, case, clause, ctx):
    prog = case.get("prog", [])
    outs = {a.get("out") for a in prog if a.get("a") == "AdvIndex" and a.get("mode") == "intarr" and a.get("lib") == "da"}
    if not any(a.get("x") in outs and a.get("a") in ("Index", "AdvIndex") for a in prog):
        return False
    txt = " ".join(str(case.get(k, "")) for k in ("detail", "err", "opt_err"))
    return "ArrayOffsetDep" in txt
