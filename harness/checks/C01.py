"""C01 array programs compute what NumPy computes (spec -> code replay of ArrayProgram behaviours).

TLC enumerates every behaviour of ArrayProgram.tla inside the bounds of each corpus
(exhaustive, not sampled: the corpora do not depend on the seed), together with the
denotation (shape, kind, values) of every collection.  Every behaviour is replayed
into dask_array under the chunk grids of its sources and every new collection is
computed and compared with the denotation; NumPy runs the same program as a second
oracle (spec != NumPy is a machinery error, never a violation).
"""
from __future__ import annotations

from .. import replay, tlc

NO_INDEX = [a for a in replay.ALL_ACTS if a != "Index"]


def corpus_plan(tier):
    """(label, kwargs for generate_programs, max chunk-grid variants per program)"""
    if tier == "quick":
        return [
            ("exh-depth1-1d", dict(acts=replay.ALL_ACTS, maxlen=1, preset="1d", sim=False, smax=1, idxpad=0, emit_all=True), 16),
            ("exh-depth1-2d", dict(acts=NO_INDEX, maxlen=1, preset="2d", sim=False, emit_all=True), 4),
            # scans and reductions over every chunking of the 6- and 7-element sources (7-block trees and scans)
            ("exh-depth1-scan-reduce-1d7", dict(acts=["Cumulative", "Reduce", "Diff"], maxlen=1, preset="1d7", sim=False, emit_all=True), 64),
        ]
    return [
        ("exh-depth1-1d", dict(acts=replay.ALL_ACTS, maxlen=1, preset="1d", sim=False, smax=2, idxpad=1, emit_all=True), 16),
        ("exh-depth1-1d7", dict(acts=NO_INDEX, maxlen=1, preset="1d7", sim=False, emit_all=True), 64),
        ("exh-depth1-2d", dict(acts=NO_INDEX, maxlen=1, preset="2d", sim=False, emit_all=True), 32),
    ]


def extra_plan(tier):
    """(label, corpus name in progcheck.CORPORA, max variants): operation families added after the first session - composite
    and two-step programs whose last collection is compared with the denotation (the prefixes are depth-1 programs)"""
    q = tier == "quick"
    return [("scan-long", "d1-scan-long", 4), ("reduce-long", "d1-red-long", 4), ("einsum", "d2-einsum", 4), ("join", "d1-join", 2 if q else 4),
            ("map-overlap", "d1-overlap", 16 if q else 128), ("index-none", "d1-index-none", 2 if q else 8), ("advindex", "d1-advindex", 2 if q else 16),
            ("map-blocks", "d1-mapplain", 4), ("diagonal", "d1-diag", 4 if q else 16)]


def classify(chk, out, label):
    declined = 0
    for case, clause in out.violations:
        if clause == "declined":
            declined += 1
            continue
        if clause == "invalid-operation-did-not-raise":
            continue        # what must raise is C12's subject; C01 is about programs that have a NumPy value
        chk.violation(dict(case, corpus=label), clause)
    return declined


def run(chk):
    rd = tlc.new_rundir("C01")
    try:
        flip_checked = False
        from .. import progcheck

        plan = list(corpus_plan(chk.tier))
        for label, name, maxvar in extra_plan(chk.tier):
            kw, flags = progcheck.corpus_kwargs(name)
            plan.append((label, kw, maxvar))
        for label, kw, maxvar in plan:
            behs, res = replay.generate_programs(rundir=rd, timeout=3000, **kw)
            chk.add_tlc(res, f"gen:{label}")
            out = replay.run_corpus(behs, observers=(), max_variants=maxvar, seed=chk.seed)
            if out.machinery:
                raise tlc.MachineryError(f"spec/NumPy disagreement ({len(out.machinery)}): {out.machinery[0]}")
            declined = classify(chk, out, label)
            chk.cov["evaluations"] += out.n_programs
            chk.cov["traces_validated_against_impl"] += out.n_programs
            chk.part(f"replay:{label}", behaviours=len(behs), programs_replayed=out.n_programs, computes=out.n_computes,
                     declined=declined, actions=out.stats)
            for b in behs:
                chk.nontrivial(("p", str(b["prog"])))
            if behs:
                chk.sample({"prog": behs[len(behs) // 2]["prog"], "expect_last": behs[len(behs) // 2]["env"][-1]})
            if not flip_checked:
                n, hit = replay.binding_selftest(behs, chk.seed)
                if n == 0 or hit == 0:
                    raise tlc.MachineryError(f"binding self-test failed: {hit} of {n} mutant programs detected")
                chk.part("selftest:flip-is-identity", programs=n, detected=hit, passed=True)
                flip_checked = True
        chk.cov["exhaustive"] = True
        chk.cov["rule"] = ("every behaviour of ArrayProgram.tla of depth 1 (one source of every preset shape and kind x every "
                           "instance of every action: all basic indices, elemwise/unary ops, casts, transposes, reshapes, "
                           "expand/squeeze, flip/roll, concatenate/stack, rechunk to every grid, every reduction x axes x keepdims x "
                           "split_every, arg-reductions, scans (both methods), diff, where, take, broadcast_to, sliding windows "
                           "alone and reduced, dot, pad incl. callable mode, repeat, tile, topk; plus scans / reductions over 9..33 unit blocks, two "
                           "einsum patterns, joins of two elementwise branches, map_overlap stencils, multi-None indices, advanced indices, "
                           "diagonals, plain map_blocks) x the chunk grids of the source (all of them when no "
                           "more than the variant cap, else a seeded sample); distinct = distinct programs; each replayed into "
                           "dask_array and the computed value, shape, dtype of the new collection compared with the TLC-computed "
                           "denotation (NumPy as second oracle)")
        chk.assumptions += ["depth 1 only: compositions of operations are covered by the rewrite/optimizer properties, not here; "
                            "TLC simulation of deeper programs (tools/explore_sim.py) is an exploration aid, not part of this check",
                            "operation families without a TLA+ denotation (fft, linalg decompositions, percentile, histogram, "
                            "general einsum, gufunc, random distributions) are not covered here; setitem, block_info, random are C11 / C20 / C23",
                            "where NumPy itself raises, only indexing is required to raise (C12); other operations are not judged",
                            "float results compared with rtol 1e-9; integer/bool results exactly"]
    finally:
        tlc.cleanup(rd)


def replay_cmd(chk, path):
    return replay.replay_file(chk, path)
