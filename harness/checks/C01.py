"""C01 array programs compute what NumPy computes (spec -> code replay of ArrayProgram behaviours)."""
from __future__ import annotations

from .. import replay, tlc


def corpus_plan(tier, seed):
    """(label, kwargs for generate_programs, max_variants)"""
    if tier == "quick":
        return [
            ("exh-depth1-1d", dict(acts=replay.ALL_ACTS, maxlen=1, preset="1d", sim=False, smax=1, idxpad=0, emit_all=True), 4),
            ("sim-depth4", dict(acts=replay.ALL_ACTS, maxlen=4, preset="mixed", sim=True, num=2500, seed=seed + 1), 1),
            ("sim-depth6", dict(acts=replay.ALL_ACTS, maxlen=6, preset="small", sim=True, num=1200, seed=seed + 2), 1),
        ]
    return [
        ("exh-depth1-1d", dict(acts=replay.ALL_ACTS, maxlen=1, preset="1d", sim=False, smax=2, idxpad=1, emit_all=True), 16),
        ("exh-depth1-2d", dict(acts=[a for a in replay.ALL_ACTS if a != "Index"], maxlen=1, preset="2d", sim=False, emit_all=True), 8),
        ("sim-depth3", dict(acts=replay.ALL_ACTS, maxlen=3, preset="mixed", sim=True, num=40000, seed=seed + 1), 1),
        ("sim-depth5", dict(acts=replay.ALL_ACTS, maxlen=5, preset="mixed", sim=True, num=40000, seed=seed + 2), 1),
        ("sim-depth7", dict(acts=replay.ALL_ACTS, maxlen=7, preset="small", sim=True, num=20000, seed=seed + 3), 1),
    ]


def classify(chk, out, label):
    declined = 0
    for case, clause in out.violations:
        if clause == "declined":
            declined += 1
            continue
        chk.violation(dict(case, corpus=label), clause)
    return declined


def run(chk):
    rd = tlc.new_rundir("C01")
    try:
        for label, kw, maxvar in corpus_plan(chk.tier, chk.seed):
            behs, res = replay.generate_programs(rundir=rd, timeout=3000, **kw)
            chk.add_tlc(res, f"gen:{label}")
            out = replay.run_corpus(behs, observers=(), max_variants=maxvar, seed=chk.seed)
            if out.machinery:
                raise tlc.MachineryError(f"spec/NumPy disagreement ({len(out.machinery)}): {out.machinery[0]}")
            declined = classify(chk, out, label)
            chk.cov["evaluations"] += out.n_programs
            chk.cov["traces_validated_against_impl"] += out.n_programs
            chk.part(f"replay:{label}", behaviours=len(behs), programs_replayed=out.n_programs, computes=out.n_computes,
                     declined=declined, actions=out.stats)
            for b in behs:
                chk.nontrivial(("p", str(b["prog"])))
            if behs:
                chk.sample({"prog": behs[len(behs) // 2]["prog"], "expect_last": behs[len(behs) // 2]["env"][-1]})
        chk.cov["rule"] = ("behaviours of ArrayProgram.tla: exhaustive depth-1 over every 1-D source x every action instance "
                           "(every chunking of the source), plus TLC simulation (random parameters) to depth 4-7 over 1-3 sources of "
                           "the mixed shapes; distinct = distinct programs; each replayed into dask_array with the value of every "
                           "new collection compared with the TLC-computed denotation (and NumPy as second oracle)")
        chk.assumptions += ["operation families without a TLA+ denotation (fft, linalg decompositions, percentile, histogram, "
                            "einsum, gufunc, random distributions) are not claimed (DESIGN §2.3)",
                            "float results compared with rtol 1e-9; integer/bool results exactly"]
    finally:
        tlc.cleanup(rd)
