"""C16 chunk normalisation produces valid layouts within the byte limit."""
from __future__ import annotations

from .. import tlc
from ..impl_helpers import decode_plan
from ._plan import run_family


def _corrupt(c):
    o = c["out"]
    if o["raised"] or not o["chunks"] or not o["chunks"][0]:
        return None
    o["chunks"][0] = list(o["chunks"][0]) + [1]  # no longer sums to the axis length
    return c


def run(chk):
    rd = tlc.new_rundir("C16")
    try:
        def on_reject(case, clause):
            return False

        done, rej = run_family(chk, rd, "normalize_chunks", "normalize_chunks",
                               dict(Preset="q" if chk.tier == "quick" else "t"), decode_plan, corrupt=_corrupt,
                               shards=4 if chk.tier == "quick" else 5, timeout=3000)
        # the tuple, dict and scalar spellings of one specification must normalise identically
        for c in done:
            if not c.get("forms_agree", True):
                chk.violation(c, "normalize_chunks: tuple/dict/scalar forms of the same specification disagree")
        accepted = sum(1 for c in done if not c["out"]["raised"])
        chk.part("normalize_chunks:accepted", accepted=accepted, rejected_specs=len(done) - accepted)
        if accepted < len(done) // 4:
            raise tlc.MachineryError("too few accepted specifications: domain is vacuous")
        chk.cov["exhaustive"] = True
        chk.cov["rule"] = ("TLC enumerates shape x per-axis spec (uniform int, -1, None, 'auto', explicit tuple, byte string) x "
                           "(itemsize, limit) x previous_chunks (none or every grid, when an auto axis exists); distinct inputs; "
                           "accepted specs validated by TLC against Planner.NormChunksVerdict, rejected (raising) specs are fine")
    finally:
        tlc.cleanup(rd)


def replay(chk, path):
    from ._plan import replay_case

    return replay_case(chk, path)
