"""Shared driver for the helper-function checks (C13, C15, C16, C17, C27)."""
from __future__ import annotations

import json

from .. import cases, tlc


def run_family(chk, rd, fn, adapter, consts, decode, *, gen_fn=None, corrupt=None, keyfn=None, shards=4, on_reject=None,
               timeout=900):
    consts = dict(dict(NMax=0, SMax=0, Pad=0, Preset="q"), **consts)
    gen, gres = cases.generate("Gen_Plan", dict(Fn=gen_fn or fn, **consts), rd, fn, decode=lambda t, k: decode(fn, t, k),
                               timeout=timeout)
    chk.add_tlc(gres, f"gen:{fn}")
    done = cases.apply_impl(f"harness.impl_helpers:{adapter}", gen)
    slim = [{k: v for k, v in c.items() if k in _FIELDS or k in ("id", "fn", "out")} for c in done]
    rejects, results = cases.validate("Trace_Plan", slim, rd, fn, shards=shards, timeout=timeout)
    for r in results:
        chk.add_tlc(r, f"validate:{fn}")
    chk.cov["evaluations"] += len(done)
    chk.cov["traces_validated_against_impl"] += len(done)
    byid = {c["id"]: c for c in done}
    nrej = 0
    for cid, clause in rejects:
        case = byid[cid]
        if on_reject is not None and on_reject(case, clause):
            continue
        nrej += 1
        chk.violation(case, f"{fn}: {clause}")
    for c in done:
        chk.nontrivial((fn, json.dumps({k: v for k, v in c.items() if k in _FIELDS}, sort_keys=True)))
    chk.sample(done[len(done) // 2])
    chk.part(f"validate:{fn}", cases=len(done), rejected=len(rejects), consts=consts)
    if corrupt is not None:
        selftest(chk, rd, fn, done, {cid for cid, _ in rejects}, corrupt)
    return done, rejects


_FIELDS = {"n", "e", "c", "a", "b", "k", "old", "new", "itemsize", "threshold", "limit", "degree", "shape", "spec", "prev",
           "ops", "policy", "src", "dst"}


def selftest(chk, rd, fn, done, rejected_ids, corrupt, want=8):
    """Negative control: corrupt recorded outputs; TLC must reject every one of them."""
    picked = []
    for c in done[:: max(1, len(done) // 60)]:
        if c["id"] in rejected_ids:
            continue
        cc = corrupt(json.loads(json.dumps(c)))
        if cc is not None:
            cc = {k: v for k, v in cc.items() if k in _FIELDS or k in ("id", "fn", "out")}
            picked.append(cc)
        if len(picked) >= want:
            break
    if not picked:
        raise tlc.MachineryError(f"binding self-test for {fn}: no case could be corrupted")
    for k, c in enumerate(picked):
        c["id"] = k + 1
    rejects, _ = cases.validate("Trace_Plan", picked, rd, fn + "-selftest", shards=1)
    if len(rejects) < len(picked):
        raise tlc.MachineryError(f"binding self-test failed for {fn}: {len(rejects)}/{len(picked)} corrupted cases rejected")
    chk.part(f"selftest:{fn}", corrupted=len(picked), rejected=len(rejects), passed=True)


def replay_case(chk, path):
    """--replay: call the helper again on the recorded input and let TLC validate the new output."""
    import importlib

    d = json.load(open(path))
    case = {k: v for k, v in d["case"].items() if k in _FIELDS or k in ("fn",)}
    case["id"] = 1
    fn = case["fn"]
    rd = tlc.new_rundir("replay")
    try:
        done = [getattr(importlib.import_module("harness.impl_helpers"), fn)(case)]
        slim = [{k: v for k, v in c.items() if k in _FIELDS or k in ("id", "fn", "out")} for c in done]
        rejects, results = cases.validate("Trace_Plan", slim, rd, "replay", shards=1)
        for r in results:
            chk.add_tlc(r, "validate:replay")
        chk.cov["evaluations"] += 1
        chk.cov["traces_validated_against_impl"] += 1
        chk.cov["rule"] = "replay of one recorded helper call"
        chk.sample(done[0])
        for _cid, clause in rejects:
            chk.violation(done[0], f"{fn}: {clause}")
        if fn == "normalize_chunks" and not done[0].get("forms_agree", True):
            chk.violation(done[0], "normalize_chunks: tuple/dict/scalar forms of the same specification disagree")
    finally:
        tlc.cleanup(rd)
    return chk.finish()
