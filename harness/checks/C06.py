"""C06 equal names denote equal arrays.

Naming.tla: Mint(name, descriptor) is enabled iff the name is new in this process or already bound to the same descriptor
(NameDeterminesContent); the shared lowering cache is sound iff a hit denotes what the key denotes (model-checked).  Code level:
every worker process replays a long history of programs (TLC-enumerated behaviours that differ minimally: same source under
every chunk grid, same operation with different parameters, random arrays with equal seeds and different layouts, persisted
graphs) and registers, for every collection, every expression node of the raw / simplified / lowered / fused trees (shape,
chunks, dtype) and every key of the raw and of the pinned graph (block shape, dtype, value fingerprint).  A name or key observed
again is emitted with the descriptor the process had registered before, and TLC (Naming.MintVerdict) rejects any difference."""
from __future__ import annotations

from .. import progcheck, tlc
from ..modelcheck import add_models

OBS = ("harness.obs_programs:obs_naming",)


def _corrupt(evs):
    out = []
    for n, e in enumerate(evs):
        if e["fn"] != "naming" or not e["ev"]:
            continue
        x = e["ev"][-1]
        if n % 2 == 0:
            x["desc"] = dict(x["desc"], fp=x["desc"]["fp"] + "00")
        else:
            x["desc"] = dict(x["desc"], dtype="complex64")
        out.append(e)
        if len(out) >= 40:
            break
    return out


def plans(tier):
    if tier == "quick":
        return [("d1-1d", 4, 2), ("d1-2d", 3, 6), ("d1-rspec", 4, 1), ("d2-lean1", 2, 4), ("d2-lean2", 2, 16), ("d2-persist-follow2", 2, 1),
                ("d1-random", 8, 1), ("d1-win-q", 8, 4), ("d2-named-creation", 4, 1), ("d3-sr1", 4, 1)]
    return [("d1-1d-wide", 8, 1), ("d1-2d", 8, 1), ("d1-rspec", 16, 1), ("d2-lean1", 3, 1), ("d2-lean2", 2, 2), ("d2-lean3", 2, 2),
            ("d2-persist-follow2", 4, 1), ("d1-random", 64, 1), ("d1-win", 32, 1), ("d2-named-creation", 16, 1), ("d3-sr1", 4, 1), ("d3-chain1", 2, 1)]


def run(chk):
    rd = tlc.new_rundir("C06")
    try:
        add_models(chk, ["Naming:cache"])
        progcheck.run_plans(chk, rd, plans(chk.tier), OBS, opts={"no_compute": True}, selftest=_corrupt)
        chk.cov["exhaustive"] = False
        chk.cov["rule"] = ("per worker process one history of consecutive enumerated behaviours (sorted, so minimally different programs are "
                           "neighbours) x chunk-grid variants; one 'naming' observation per collection: every re-observed node name / graph "
                           "key with its earlier descriptor; distinct = observations")
        chk.assumptions += ["names that DIFFER for equal arrays are not judged (lost sharing is not a violation)",
                            "the history of a worker is the subsequence of programs it was given; cross-worker histories are not explored"]
    finally:
        tlc.cleanup(rd)


def replay_cmd(chk, path):
    from ..obs_programs import obs_naming

    return progcheck.replay_case(chk, path, (obs_naming,))
