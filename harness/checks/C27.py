"""C27 transfer estimates are well-formed.

 (a) moved_fraction: TLC enumerates every pair of chunkings of every axis length <= NMax, the real
     function is called, TLC validates the recorded fraction against Planner.MovedVerdict.
 (b) node estimates: every depth-1 behaviour of ArrayProgram.tla is built with the real library and
     the estimate of every node of the raw and of the optimized expression is checked.
"""
from __future__ import annotations

from .. import replay, tlc
from ..impl_helpers import decode_plan
from ._plan import replay_case, run_family
from .C01 import NO_INDEX


def _corrupt(c):
    c["out"]["num"] = c["out"]["den"] + 1
    return c


def run(chk):
    rd = tlc.new_rundir("C27")
    try:
        run_family(chk, rd, "moved_fraction", "moved_fraction", dict(NMax=7 if chk.tier == "quick" else 9), decode_plan,
                   corrupt=_corrupt, shards=4)
        plans = [("exh-depth1-1d", dict(acts=replay.ALL_ACTS, maxlen=1, preset="1d", sim=False, smax=1, idxpad=0, emit_all=True), 4)]
        if chk.tier != "quick":
            plans.append(("exh-depth1-2d", dict(acts=NO_INDEX, maxlen=1, preset="2d", sim=False, emit_all=True), 8))
        # the same programs under a scaled-down planner configuration: multi-stage rechunk plans with tiny arrays
        scaled = {"array.rechunk.degree-limit": 2, "array.rechunk.threshold": 1, "array.chunk-size": "16B"}
        plans = [(lab, kw, mv, None) for lab, kw, mv in plans] + [
            ("exh-depth1-rechunk-1d7-degree2", dict(acts=["Rechunk"], maxlen=1, preset="1d7", sim=False, emit_all=True), 16, scaled),
            ("exh-depth1-rechunk-2d-degree2", dict(acts=["Rechunk"], maxlen=1, preset="2d", sim=False, emit_all=True), 4, scaled)]
        for label, kw, maxvar, cfg in plans:
            behs, res = replay.generate_programs(rundir=rd, timeout=3000, **kw)
            chk.add_tlc(res, f"gen:{label}")
            out = replay.run_corpus(behs, observers=("harness.observers:transfer_estimates",), max_variants=maxvar,
                                    seed=chk.seed, opts={"no_compute": True, "config": cfg})
            if out.machinery:
                raise tlc.MachineryError(f"spec/NumPy disagreement: {out.machinery[0]}")
            n = 0
            for case, clause in out.violations:
                if clause.startswith("estimate-") or clause.endswith("-moves-bytes"):
                    chk.violation(dict(case, corpus=label, fn="node_estimates"), clause)
                    n += 1
            chk.cov["evaluations"] += out.n_programs
            chk.cov["traces_validated_against_impl"] += out.n_programs
            chk.part(f"estimates:{label}", behaviours=len(behs), programs_built=out.n_programs, estimate_problems=n)
            for b in behs:
                chk.nontrivial(("p", str(b["prog"])))
        chk.cov["exhaustive"] = True
        chk.cov["rule"] = ("(a) every pair of chunkings of every axis length <= NMax (parts.validate:moved_fraction.consts); "
                           "(b) every depth-1 behaviour of ArrayProgram.tla x source chunk grids: estimate of every node of the raw "
                           "and of the optimized expression, plus x.blocks[0] of every source (pure alias)")
        chk.assumptions += ["unknown (nan) chunk sizes do not occur in the enumerated programs, so NaN estimates are never acceptable here"]
    finally:
        tlc.cleanup(rd)


def replay_cmd(chk, path):
    import json

    if json.load(open(path))["case"].get("fn") == "moved_fraction":
        return replay_case(chk, path)
    # node estimates: rebuild the recorded program
    d = json.load(open(path))
    case = d["case"]
    beh = {"prog": case["prog"], "env": case["env"]}
    from ..observers import transfer_estimates

    probs = replay.replay_one(beh, [tuple(tuple(ax) for ax in g) for g in case["grids"]], (transfer_estimates,), compute_all=False)
    chk.cov["evaluations"] += 1
    chk.cov["traces_validated_against_impl"] += 1
    chk.cov["rule"] = "replay of one recorded program"
    chk.sample({"prog": case["prog"]})
    for clause, detail in probs:
        if clause.startswith("estimate-") or clause.endswith("-moves-bytes"):
            c = {"prog": beh["prog"], "env": beh["env"], "grids": case["grids"], "detail": detail, "fn": "node_estimates"}
            c.update(replay.failing_action(beh, detail))
            chk.violation(c, clause)
    return chk.finish()
