"""C18 reductions are independent of chunking and tree shape.

Model level: TreeReduce.tla - for every reduction kind, every input of length <= 5 over {0, 1, 3, NaN}, every chunking and EVERY
tree (any contiguous group of <= split_every partials merged at each step) the partials still determine the flat reduction
(invariant TreeIndependent, exhaustive).  Code level: TLC enumerates every reduction (sum, prod, min, max, any, all, mean, var,
nan-variants, argmin / argmax with and without axis, count_nonzero, ptp, topk) x axis subsets x keepdims x split_every (2, 3, a
per-axis dict, default) over int / bool / NaN-carrying sources of 1 to 3 dimensions, computes the NumPy denotation in NdArray.tla,
and every behaviour is replayed under EVERY chunk grid of its source (up to the variant cap); slices applied to reductions and
reductions applied to sliced / rechunked / transposed operands are covered by two composition corpora; reductions over the
window axis of sliding_window_view (whose kernels are substituted depending on the chunking) under every chunk grid by a third."""
from __future__ import annotations

from .. import progcheck, replay, tlc
from ..modelcheck import add_models


def plans(tier):
    if tier == "quick":
        return [("d1-red", 12, 2), ("d1-reduce-1d7", 64, 2), ("d2-red-index", 2, 2), ("d2-index-red", 2, 4), ("d1-win-q", 128, 3), ("d1-red-long", 4, 2)]
    return [("d1-red", 64, 1), ("d1-reduce-1d7", 64, 1), ("d1-reduce-2d", 32, 1), ("d2-red-index", 4, 1), ("d2-index-red", 4, 1), ("d1-win", 128, 2), ("d1-red-long", 4, 1)]


def run(chk):
    rd = tlc.new_rundir("C18")
    try:
        add_models(chk, ["TreeReduce:all-trees"])
        for name, maxvar, stride in progcheck.dev_filter(plans(chk.tier)):
            kw, flags = progcheck.corpus_kwargs(name)
            keep = flags["keep"]
            behs, res = replay.generate_programs(rundir=rd, timeout=3000, **kw)
            chk.add_tlc(res, f"gen:{name}")
            if keep is not None:
                behs = [b for b in behs if keep(b)]
            picked = progcheck.stride_sample(behs, stride, chk.seed)
            if name == "d1-red":
                for_selftest = picked
            out = replay.run_corpus(picked, observers=(), max_variants=maxvar, seed=chk.seed)
            if out.machinery:
                raise tlc.MachineryError(f"spec/NumPy disagreement ({len(out.machinery)}): {out.machinery[0]}")
            declined = 0
            for case, clause in out.violations:
                if clause == "declined":
                    declined += 1
                    continue
                chk.violation(dict(case, corpus=name), clause)
            chk.cov["evaluations"] += out.n_programs
            chk.cov["traces_validated_against_impl"] += out.n_programs
            chk.part(f"replay:{name}", behaviours=len(behs), replayed_behaviours=len(picked), programs_replayed=out.n_programs,
                     computes=out.n_computes, declined=declined, actions=out.stats, stride=stride, max_variants=maxvar)
            for b in picked:
                chk.nontrivial(("p", str(b["prog"])))
            if picked:
                chk.sample({"prog": picked[len(picked) // 2]["prog"], "expect_last": picked[len(picked) // 2]["env"][-1]})
        n, hit = selftest(for_selftest, chk.seed)
        if n == 0 or hit == 0:
            raise tlc.MachineryError(f"binding self-test failed: {hit} of {n} mutant programs detected")
        chk.part("selftest:split_every-drops-a-block", programs=n, detected=hit, passed=True)
        chk.cov["exhaustive"] = True
        chk.cov["rule"] = ("every behaviour [one source of the preset {(5,), (7,), (3,4), (2,3,2)} x {int, bool, float-with-NaN}] ; [every "
                           "reduction x axis subset x keepdims x split_every in {default, 2, 3, {0:2,1:3}}] replayed under the chunk grids of its "
                           "source (all 64 grids of the 7-element source); plus reduction;slice and (slice|rechunk|transpose|elemwise);reduction")
        chk.assumptions += ["std, moment, weighted average are not modelled (no exact denotation in NdArray.tla)",
                            "float results compared with rtol 1e-9"]
    finally:
        tlc.cleanup(rd)


def selftest(behs, seed):
    """negative control: a reduction that ignores its last block must be detected"""
    picked = [b for b in behs if b["prog"][-1]["a"] == "Reduce" and b["prog"][-1]["op"] in ("sum", "max")][:40]
    replay.MUTANT = "reduce-drops-last-block"
    try:
        out = replay.run_corpus(picked, max_variants=4, seed=seed, procs=1)
    finally:
        replay.MUTANT = None
    return len(picked), len([1 for _, cl in out.violations if cl in ("values", "shape")])


def replay_cmd(chk, path):
    return replay.replay_file(chk, path)
