"""C07 names are deterministic and survive serialization.

Naming.tla: a name is a function of the program (content addressed), so Mint-ing the same program again - in this process, in
a fresh process with another hash seed, through Pickle / Unpickle - must give the same identity (IdentityVerdict).  TLC
enumerates programs (incl. random arrays, rechunk specs, reductions); each is built here, built again, cloudpickled and
unpickled here, and - in fresh interpreters started with a different PYTHONHASHSEED - built again and unpickled.  Every identity
record carries the collection name, `__dask_keys__()`, the optimized graph's key set, `__frisky_output_keys__()`, chunks, dtype
and a fingerprint of the computed values; TLC compares every record with the first."""
from __future__ import annotations

import json

from .. import cases as casemod
from .. import identity, progcheck, replay, tlc
from ..modelcheck import add_models


def plans(tier):
    if tier == "quick":
        return [("d1-1d", 1, 24), ("d1-2d", 1, 48), ("d1-random", 1, 4), ("d2-random", 1, 40), ("d1-rspec", 1, 6), ("d2-lean2", 1, 96),
                ("d2-lean3", 1, 128), ("d1-join", 1, 2), ("d2-einsum", 1, 1), ("d1-mapplain", 2, 1)]
    return [("d1-1d", 2, 3), ("d1-2d", 2, 6), ("d1-random", 1, 1), ("d2-random", 1, 4), ("d1-rspec", 2, 1), ("d2-lean1", 1, 4),
            ("d2-lean2", 1, 12), ("d2-lean3", 1, 16), ("d1-join", 2, 1), ("d2-einsum", 2, 1), ("d1-mapplain", 4, 1)]


def _local(item):
    return dict(identity.local_records(item), id=item["id"])


def run(chk):
    import random

    rd = tlc.new_rundir("C07")
    try:
        add_models(chk, ["Naming:cache"])
        items = []
        rng = random.Random(chk.seed)
        for name, maxvar, stride in progcheck.dev_filter(plans(chk.tier)):
            kw, flags = progcheck.corpus_kwargs(name)
            keep = flags["keep"]
            behs, res = replay.generate_programs(rundir=rd, timeout=3000, **kw)
            chk.add_tlc(res, f"gen:{name}")
            if keep is not None:
                behs = [b for b in behs if keep(b)]
            picked = progcheck.stride_sample(behs, stride, chk.seed)
            for b in picked:
                for g in replay.variants(b, maxvar, rng):
                    items.append({"id": len(items) + 1, "prog": b["prog"], "env": b["env"], "grids": [list(map(list, x)) for x in g], "corpus": name})
            chk.part(f"programs:{name}", behaviours=len(behs), picked=len(picked), stride=stride)
        local = casemod.apply_impl("harness.checks.C07:_local", items)
        by_id = {it["id"]: it for it in items}
        todo = []
        for r in local:
            if r.get("ref") is not None:
                todo.append(dict(by_id[r["id"]], pickle=r.get("pickle")))
        foreign = {r["id"]: r for r in identity.run_foreign(todo, rd)}
        # a second fresh interpreter with yet another string hash seed (an iteration-order dependence can coincide for
        # one pair of seeds); rebuilds only
        for r in identity.run_foreign([dict(t, pickle=None) for t in todo], rd, hashseed="17"):
            for o in r.get("others", []):
                o["how"] += "(seed-17)"
            foreign.setdefault(r["id"], {"others": []})["others"] += r.get("others", [])
        evs = []
        for r in local:
            if r.get("ref") is None:
                continue
            others = r["others"] + foreign.get(r["id"], {}).get("others", [])
            evs.append({"fn": "identity", "id": r["id"], "ref": r["ref"], "others": others})
        rejects, results = casemod.validate("Trace_Obs", evs, rd, "C07", shards=8, timeout=1800, consts=progcheck.MODULE_CONSTS["Trace_Obs"])
        for x in results:
            chk.add_tlc(x, "validate:identity")
        ev_by_id = {e["id"]: e for e in evs}
        for cid, clause in rejects:
            it = by_id[cid]
            chk.violation({"fn": "identity", "prog": it["prog"], "grids": it["grids"], "ref": ev_by_id[cid]["ref"], "others": ev_by_id[cid]["others"]}, clause)
        # negative control
        bad = []
        for n, e in enumerate(json.loads(json.dumps(evs[:60]))):
            o = e["others"][n % len(e["others"])]
            f = ("name", "keys", "okeys", "fkeys", "dtype", "fp")[n % 6]
            o[f] = o[f] + "x"
            bad.append(e)
        rej, _ = casemod.validate("Trace_Obs", bad, rd, "C07-selftest", shards=2, consts=progcheck.MODULE_CONSTS["Trace_Obs"])
        if not bad or {c for c, _ in rej} != {b["id"] for b in bad}:
            raise tlc.MachineryError(f"binding self-test failed: {len(rej)} of {len(bad)} corrupted records rejected")
        chk.part("selftest:corrupted-records", corrupted=len(bad), rejected=len(rej), passed=True)
        chk.cov["evaluations"] += len(evs)
        chk.cov["traces_validated_against_impl"] += len(evs)
        chk.part("identity", programs=len(items), with_a_live_collection=len(evs), records_per_program=5,
                 foreign_errors=len([1 for r in foreign.values() if r.get("err")]), local_errors=len([1 for r in local if r.get("err")]))
        for e in evs:
            chk.nontrivial(("i", e["id"]))
        if evs:
            chk.sample({"program": by_id[evs[len(evs) // 2]["id"]]["prog"], "ref": evs[len(evs) // 2]["ref"]})
        chk.cov["exhaustive"] = False
        chk.cov["rule"] = ("a deterministic stride of the enumerated behaviours (corpora in parts; tokenizable inputs only: NumPy sources and seeded "
                           "random arrays) x chunk-grid variants; per program 5 identity records: built, built again, pickle round trip, built in "
                           "a fresh interpreter with PYTHONHASHSEED=4242, unpickled in that interpreter")
        chk.assumptions += ["sources documented as untokenizable are not generated", "one foreign hash seed (4242) per run"]
    finally:
        tlc.cleanup(rd)


def replay_cmd(chk, path):
    case = json.load(open(path))["case"]
    raise tlc.MachineryError("C07 compares interpreters; re-run the check (corpus and hash seed are deterministic)")
