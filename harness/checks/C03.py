"""C03 advertised shape, dtype and chunks are what the graph produces.

For every collection of every enumerated behaviour of ArrayProgram.tla the advertised (shape, chunks, dtype) is
read before any graph exists, the pinned graph is executed key by key with the driver's scheduler, and TLC
evaluates Collection.BlocksVerdict on the recorded block shapes / dtypes and on the assembled result."""
from __future__ import annotations

from .. import progcheck, tlc

OBS = ("harness.obs_programs:obs_blocks",)


def _corrupt(evs):
    out = []
    for n, e in enumerate(evs):
        if e["fn"] != "blocks" or not e["blocks"]:
            continue
        m = n % 4
        if m == 0 and e["blocks"][0]["shape"]:
            e["blocks"][0]["shape"][0] += 1
        elif m == 1:
            e["blocks"][-1]["dtype"] = "complex64"
        elif m == 2 and e["result"]["shape"]:
            e["result"]["shape"][-1] += 1
        elif m == 3:
            e["blocks"] = e["blocks"][:-1]
        else:
            continue
        out.append(e)
        if len(out) >= 40:
            break
    return out


def plans(tier):
    return progcheck.standard_plans(tier) + ([("d1-win-q", 128, 1)] if tier == "quick" else [("d1-win", 128, 1)]) \
        + [("d3-balance-declared", 4, 1), ("d2-blockfirst", 4, 1)]


def run(chk):
    rd = tlc.new_rundir("C03")
    try:
        progcheck.run_plans(chk, rd, plans(chk.tier), OBS, opts={"no_compute": True, "both_modes": chk.tier != "quick"},
                            selftest=_corrupt)
        chk.cov["exhaustive"] = True
        chk.cov["rule"] = ("every collection of every enumerated behaviour of ArrayProgram.tla (corpora in parts) x chunk-grid variants: "
                           "advertised metadata read before materialization, every output key of the pinned graph executed, "
                           "block shapes/dtypes and the assembled result judged by Collection.BlocksVerdict")
        chk.assumptions += ["collections whose graph cannot be built or executed (raises) are C08's / C01's subject (not_observable_raised)"]
    finally:
        tlc.cleanup(rd)


def replay_cmd(chk, path):
    from ..obs_programs import obs_blocks

    return progcheck.replay_case(chk, path, (obs_blocks,))
