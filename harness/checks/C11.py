"""C11 in-place operations only change the array they are applied to.

ArrayProgram.tla models collections as handles onto denotations: SetItem / MaskSet / OutUfunc / ComputeChunkSizes replace
env[target] and nothing else.  TLC enumerates histories derive* ; mutate ; derive* ; mutate ... (lean domains, exhaustive);
each history is replayed into dask_array and after every in-place action (and at the end) EVERY live collection is computed
and compared with its current denotation; the user's source arrays are fingerprinted before and after."""
from __future__ import annotations

import numpy as np

from .. import progcheck, replay, tlc

OBS = ("harness.observers:all_handles", "harness.checks.C11:sources_untouched")


def sources_untouched(ctx, k, act, d, nv, problems):
    if k != len(ctx["prog"]) - 1:
        return
    for j, (coll, copy) in enumerate(ctx.get("src_copies", [])):
        src = ctx["np_src"][j] if "np_src" in ctx else None
        if src is not None and not np.array_equal(src, copy):
            problems.append(("source-array-modified", f"action {k}: source {j + 1} changed to {src.tolist()!r}"))


def plans(tier):
    if tier == "quick":
        return [("d3-inplace-dmd", 1, 2), ("d3-inplace-mdm", 1, 2), ("d3-inplace-ddm", 1, 3), ("d3-inplace-mmd", 1, 2), ("d2-inplace2", 1, 2),
                ("d2-inplace3", 1, 3), ("d4-where-out", 2, 1)]
    return [("d3-inplace-dmd", 2, 1), ("d3-inplace-mdm", 2, 1), ("d3-inplace-ddm", 2, 1), ("d3-inplace-mmd", 2, 1), ("d2-inplace2", 3, 1),
            ("d2-inplace3", 2, 1), ("d4-where-out", 4, 1)]


def run(chk):
    rd = tlc.new_rundir("C11")
    try:
        total = 0
        for name, maxvar, stride in progcheck.dev_filter(plans(chk.tier)):
            kw, flags = progcheck.corpus_kwargs(name)
            keep = flags["keep"]
            behs, res = replay.generate_programs(rundir=rd, timeout=3000, **kw)
            chk.add_tlc(res, f"gen:{name}")
            behs = [b for b in behs if any(a["a"] in replay.INPLACE for a in b["prog"]) and (keep is None or keep(b))]
            picked = progcheck.stride_sample(behs, stride, chk.seed)
            out = replay.run_corpus(picked, observers=OBS, max_variants=maxvar, seed=chk.seed, opts={"no_compute": True})
            if out.machinery:
                raise tlc.MachineryError(f"spec/NumPy disagreement ({len(out.machinery)}): {out.machinery[0]}")
            declined = 0
            for case, clause in out.violations:
                if clause == "declined":
                    declined += 1
                    continue
                chk.violation(dict(case, corpus=name), clause)
            chk.cov["evaluations"] += out.n_programs
            chk.cov["traces_validated_against_impl"] += out.n_programs
            total += out.n_programs
            chk.part(f"replay:{name}", behaviours_with_inplace=len(behs), replayed_behaviours=len(picked), programs_replayed=out.n_programs,
                     declined=declined, actions=out.stats, stride=stride, max_variants=maxvar)
            for b in picked:
                chk.nontrivial(("p", str(b["prog"])))
            if picked:
                chk.sample({"prog": picked[len(picked) // 2]["prog"]})
        # negative control of the binding: an in-place action replayed as a no-op must be detected
        n, hit = selftest(picked[:60], chk.seed)
        if n == 0 or hit == 0:
            raise tlc.MachineryError(f"binding self-test failed: {hit} of {n} mutant histories detected")
        chk.part("selftest:inplace-is-a-noop", programs=n, detected=hit, passed=True)
        chk.cov["exhaustive"] = True
        chk.cov["rule"] = ("every behaviour of ArrayProgram.tla over {Index, Elemwise, Rechunk, Transpose} and the in-place actions {SetItem "
                           "(scalar / collection value, every lean basic index), MaskSet (NumPy and dask masks), OutUfunc} of depth 3 (1-D: derive-mutate-derive, mutate-derive-mutate, "
                           "derive-derive-mutate, mutate-mutate-derive) / 2 (2-D, 3-D) that contains an in-place action, plus 'rechunk ; masked ufunc with out= ; in-place ; the same masked ufunc again'; all live collections computed after every in-place action")
        chk.assumptions += ["an in-place operation refused at assignment time (exception raised by the assignment itself) is a decline",
                            "identity operations that return the very same object (x[:]) are followed by .copy(), so every handle of "
                            "the specification is a distinct collection object"]
    finally:
        tlc.cleanup(rd)


def selftest(behs, seed):
    replay.MUTANT = "inplace-noop"
    try:
        out = replay.run_corpus(behs, observers=OBS, max_variants=1, seed=seed, procs=1, opts={"no_compute": True})
    finally:
        replay.MUTANT = None
    return len(behs), len([1 for _, cl in out.violations if "target-collection-value-differs" in cl])


def replay_cmd(chk, path):
    import json

    from ..observers import all_handles

    case = json.load(open(path))["case"]
    beh = {"prog": case["prog"], "env": case["env"]}
    probs = replay.replay_one(beh, [tuple(tuple(ax) for ax in g) for g in case["grids"]], (all_handles, sources_untouched), compute_all=False)
    chk.cov["evaluations"] += 1
    chk.cov["traces_validated_against_impl"] += 1
    chk.cov["rule"] = "replay of one recorded history"
    chk.sample({"prog": case["prog"]})
    for clause, detail in probs:
        if clause == "declined":
            continue
        c = {"prog": beh["prog"], "env": beh["env"], "grids": case["grids"], "detail": detail}
        c.update(replay.failing_action(beh, detail))
        chk.violation(c, clause)
    return chk.finish()
