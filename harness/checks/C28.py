"""C28 unknown chunk sizes are resolved exactly or refused.

ArrayProgram.tla's MaskSelect (boolean-mask selection) and Unknown (flatnonzero, argwhere, unique) actions produce arrays whose
chunk sizes dask_array cannot know; ComputeChunkSizes resolves them in place.  TLC enumerates producers over every small source,
the in-place resolution, and follow-on operations with and without resolution.  For every collection from the producer on, the
pinned graph is executed: TLC checks (Collection.BlocksVerdict) that every advertised known size is the true block size (after
compute_chunk_sizes all sizes must be known), and (Collection.UnknownVerdict) that the value is the denotation - or that the
operation raised."""
from __future__ import annotations

from .. import progcheck, tlc

OBS = ("harness.obs_programs:obs_unknown",)


def _corrupt(evs):
    out = []
    for n, e in enumerate(evs):
        if e["fn"] == "unknown" and e["got"]["kind"] != "raised" and e["got"]["data"]:
            v = e["got"]
            if n % 2 == 0 and v["kind"] in ("i", "b"):
                v["data"][0] = int(v["data"][0]) + 1 if v["kind"] == "i" else 1 - int(v["data"][0])
            else:
                v["shape"] = [v["shape"][0] + 1] + v["shape"][1:]
            out.append(e)
        elif e["fn"] == "blocks" and e["blocks"] and e["blocks"][0]["shape"] and all(c != -7 for ax in e["adv"]["chunks"] for c in ax):
            e["blocks"][0]["shape"][0] += 1
            out.append(e)
        if len(out) >= 50:
            break
    return out


def plans(tier):
    if tier == "quick":
        return [("d2-unknown-ccs", 4, 1), ("d2-unknown-follow", 1, 2), ("d3-unknown-ccs-follow", 1, 6), ("d3-unknown-ccs-follow2", 1, 12), ("d3-unknown-pair", 2, 1), ("d2-unknown-rechunk-nan", 4, 1)]
    return [("d2-unknown-ccs", 32, 1), ("d2-unknown-follow", 3, 1), ("d3-unknown-ccs-follow", 2, 1), ("d3-unknown-ccs-follow2", 2, 2), ("d3-unknown-pair", 16, 1), ("d2-unknown-rechunk-nan", 32, 1)]


def accept(v):
    return v.startswith("ok-")


def run(chk):
    rd = tlc.new_rundir("C28")
    try:
        def on_problem(case, clause):
            # stacking two selections of different (still unknown) sizes must be refused, as NumPy refuses it
            if clause == "invalid-operation-did-not-raise":
                chk.violation(case, "mismatched-unknown-shapes-accepted")

        progcheck.run_plans(chk, rd, plans(chk.tier), OBS, opts={"no_compute": True, "last_only": False}, selftest=_corrupt,
                            accept_verdict=accept, on_problem=on_problem)
        chk.cov["exhaustive"] = True
        chk.cov["rule"] = ("every behaviour of ArrayProgram.tla that starts with MaskSelect (thresholds selecting none / some / all elements) or "
                           "Unknown (flatnonzero, argwhere, unique) over the preset sources x chunk grids, followed by ComputeChunkSizes and / or "
                           "follow-on operations (incl. rechunks onto unknown targets of another block count); one 'blocks' and one 'unknown' observation per collection from the producer on")
        chk.assumptions += ["an operation on unknown (or resolved) sizes that raises is accepted (ok-refused)",
                            "compress / nonzero tuples are not modelled"]
    finally:
        tlc.cleanup(rd)


def replay_cmd(chk, path):
    from ..obs_programs import obs_unknown

    return progcheck.replay_case(chk, path, (obs_unknown,), accept_verdict=accept, opts={"last_only": False})
