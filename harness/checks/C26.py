"""C26 xarray integration is strictly opt-in.

XarrayOptIn.tla (model-checked; the "eager" mutant that registers on import violates OptIn): importing xarray or any dask_array
(sub)module never changes xarray's "dask" chunk manager, only register() does.  Interpreter histories are enumerated: for every
importable dask_array sub-module m: [import xarray; import m], [import m; import xarray], plus longer histories (several
sub-modules around xarray; register before / after xarray and sub-modules; a final xarray computation on registered
dask_array-backed data compared with NumPy-backed data).  Every history runs in a fresh interpreter that records, after every
step, the type of xarray's dask chunk manager and dask_array.xarray.isactive(); TLC (XarrayOptIn.OptInVerdict) validates."""
from __future__ import annotations

import concurrent.futures as cf
import json

from .. import cases as casemod
from .. import optin, progcheck, tlc
from ..modelcheck import add_models


def histories(tier, seed):
    import random

    mods = optin.submodules()
    rng = random.Random(seed)
    hs = []
    pick = mods if tier != "quick" else [m for n, m in enumerate(mods) if n % 3 == seed % 3 or "xarray" in m or m == "dask_array"]
    for m in pick:
        hs.append(["import xarray", f"import {m}"])
        hs.append([f"import {m}", "import xarray"])
    for _ in range(12 if tier == "quick" else 60):
        k = rng.choice([2, 3, 4])
        ms = [f"import {m}" for m in rng.sample(mods, k)]
        pos = rng.randrange(len(ms) + 1)
        hs.append(ms[:pos] + ["import xarray"] + ms[pos:])
    # ordinary use without register(): arrays and xarray objects through dask's entry points, after importing the integration modules
    for pre in (["import xarray", "import dask_array"], ["import dask_array._xarray", "import xarray"],
                ["import xarray", "import dask_array.xarray", "import dask_array._xarray"], ["import dask_array", "import dask_array._backends", "import xarray"]):
        for use in ("array-compute", "array-persist", "dataset-compute", "dataset-persist", "dataset-optimize"):
            hs.append(pre + [f"use {use}"])
    # register(): before / after xarray and sub-modules, then a computation
    hs += [["import xarray", "import dask_array", "register", "import dask_array._rechunk", "compute"],
           ["import dask_array", "register", "import xarray", "compute"],
           ["import dask_array.xarray", "import xarray", "import dask_array._xarray", "register", "compute"],
           ["import xarray", "import dask_array._xarray", "import dask_array.xarray", "register", "register", "compute"]]
    return hs, len(mods)


def run(chk):
    rd = tlc.new_rundir("C26")
    try:
        add_models(chk, ["XarrayOptIn:ok", "XarrayOptIn:eager-mutant"])
        hs, nmods = histories(chk.tier, chk.seed)
        with cf.ThreadPoolExecutor(max_workers=16) as ex:
            res = list(ex.map(optin.run_history, hs))
        errs = [r for r in res if "err" in r]
        if len(errs) > len(res) // 4:
            raise tlc.MachineryError(f"{len(errs)} of {len(res)} interpreter histories failed to run: {errs[0]['err'][-300:]}")
        evs = [{"fn": "optin", "id": n + 1, "ev": r["ev"], "values_equal": r["values_equal"], "steps": r["steps"]}
               for n, r in enumerate(r for r in res if "err" not in r)]
        rejects, results = casemod.validate("Trace_Obs", evs, rd, "C26", shards=2, consts=progcheck.MODULE_CONSTS["Trace_Obs"])
        for x in results:
            chk.add_tlc(x, "validate:histories")
        by_id = {e["id"]: e for e in evs}
        for cid, clause in rejects:
            chk.violation({"fn": "optin", "steps": by_id[cid]["steps"], "ev": by_id[cid]["ev"]}, clause)
        bad = []
        for n, e in enumerate(json.loads(json.dumps(evs[:30]))):
            if any(x["step"] == "register" for x in e["ev"]):
                continue
            e["ev"][-1]["manager"] = "ours"
            bad.append(e)
        rej, _ = casemod.validate("Trace_Obs", bad, rd, "C26-selftest", shards=1, consts=progcheck.MODULE_CONSTS["Trace_Obs"])
        if not bad or {c for c, _ in rej} != {b["id"] for b in bad}:
            raise tlc.MachineryError(f"binding self-test failed: {len(rej)} of {len(bad)} corrupted histories rejected")
        chk.part("selftest:corrupted-histories", corrupted=len(bad), rejected=len(rej), passed=True)
        chk.cov["evaluations"] += len(evs)
        chk.cov["traces_validated_against_impl"] += len(evs)
        chk.part("histories", importable_submodules=nmods, histories=len(hs), ran=len(evs), failed_to_run=len(errs),
                 with_register=len([1 for e in evs if any(x["step"] == "register" for x in e["ev"])]))
        for e in evs:
            chk.nontrivial(("h", json.dumps(e["steps"])))
        chk.sample({"steps": evs[len(evs) // 2]["steps"], "ev": evs[len(evs) // 2]["ev"]})
        chk.cov["exhaustive"] = chk.tier != "quick"
        chk.cov["rule"] = ("fresh-interpreter histories: for every importable dask_array sub-module m (quick: a third of them, rotating with "
                           "the seed): [xarray, m] and [m, xarray]; seeded longer histories of 2-4 sub-modules around xarray; four histories with "
                           "register() followed by an xarray computation on dask_array-backed data")
    finally:
        tlc.cleanup(rd)


def replay_cmd(chk, path):
    case = json.load(open(path))["case"]
    r = optin.run_history(case["steps"])
    rd = tlc.new_rundir("C26-replay")
    try:
        e = {"fn": "optin", "id": 1, "ev": r.get("ev", []), "values_equal": r.get("values_equal", -1)}
        rej, results = casemod.validate("Trace_Obs", [e], rd, "replay", shards=1, consts=progcheck.MODULE_CONSTS["Trace_Obs"])
        for cid, clause in rej:
            chk.violation({"fn": "optin", "steps": case["steps"], "ev": e["ev"]}, clause)
    finally:
        tlc.cleanup(rd)
    chk.cov["evaluations"] += 1
    chk.cov["traces_validated_against_impl"] += 1
    chk.cov["rule"] = "replay of one interpreter history"
    chk.sample({"steps": case["steps"]})
    return chk.finish()
