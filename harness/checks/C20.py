"""C20 map_blocks block_info / block_id match the layout the call was built against.

ArrayProgram.tla's MapBlocks action applies a block function that adds to every element its global position along an axis,
derived ONLY from the block_info / block_id it is given (so a wrong binding also changes values).  TLC enumerates programs with
the call placed above layout-changing sub-trees (every operation incl. sliding-window reductions over every chunking) and below
slices, rechunks, reductions, transposes.  Every invocation is logged and TLC (MapBlocksInfo.BlockInfoVerdict) requires it to be
a block of the layout advertised when map_blocks was called, with the block handed over having exactly that shape."""
from __future__ import annotations

from .. import progcheck, tlc

OBS = ("harness.obs_programs:obs_block_info", "harness.obs_programs:obs_block_info2")


def _corrupt(evs):
    out = []
    n2 = 0
    for n, e in enumerate(evs):
        if e["fn"] == "block_info2" and e["calls"] and n2 < 15:
            inp = e["calls"][-1]["inputs"][n % 2]
            if n % 3 == 0:
                inp["shape"] = [v + 1 for v in inp["shape"]]                 # not the block that was announced
            else:
                inp["info"]["array_location"][-1] = [inp["info"]["array_location"][-1][0], inp["info"]["array_location"][-1][1] + 1]
            n2 += 1
            out.append(e)
            continue
        if e["fn"] != "block_info" or not e["calls"]:
            continue
        c = e["calls"][-1]
        m = n % 3
        if m == 0:
            c["shape"] = [v + 1 for v in c["shape"]]
        elif m == 1 and "info" in c:
            c["info"]["array_location"][0] = [c["info"]["array_location"][0][0] + 1, c["info"]["array_location"][0][1] + 1]
        elif m == 2 and "block_id" in c:
            c["block_id"] = [v + 7 for v in c["block_id"]]
        else:
            c["shape"] = [v + 2 for v in c["shape"]]
        out.append(e)
        if len(out) >= 45:
            break
    return out


def plans(tier):
    if tier == "quick":
        return [("d1-mapblocks", 4, 1), ("d2-above-mapblocks", 1, 4), ("d2-win-mapblocks-q", 128, 1), ("d2-below-mapblocks", 1, 4),
                ("d3-mapblocks-chain", 1, 12), ("d2-mapblocks2", 8, 1)]
    return [("d1-mapblocks", 32, 1), ("d2-above-mapblocks", 3, 1), ("d2-win-mapblocks", 128, 1), ("d2-below-mapblocks", 3, 1),
            ("d3-mapblocks-chain", 2, 2), ("d2-mapblocks2", 16, 1)]


def accept(v):
    return v.startswith("ok-")


def run(chk):
    rd = tlc.new_rundir("C20")
    try:
        progcheck.run_plans(chk, rd, plans(chk.tier), OBS, opts={"no_compute": True, "last_only": False}, selftest=_corrupt,
                            accept_verdict=accept)
        from ..modelcheck import add_models

        add_models(chk, ['MapBlocksInfo:exact'])
        chk.cov["exhaustive"] = True
        chk.cov["rule"] = ("every behaviour of ArrayProgram.tla with a MapBlocks action (function taking block_info, block_id or both): alone over "
                           "every source shape/grid; above every (lean) operation and above sliding-window reductions over every chunking of 1-D "
                           "sources up to 8 elements; below every (lean) operation; in chains with slices / rechunks / transposes.  One "
                           "observation per (MapBlocks action, computed collection): all invocations + the computed value")
        chk.assumptions += ["culled or repeated invocations are allowed; an invocation for a block of another layout is not",
                            "computations that raise are C08's / C01's subject (ok-computation-raised)"]
    finally:
        tlc.cleanup(rd)


def replay_cmd(chk, path):
    from ..obs_programs import obs_block_info

    return progcheck.replay_case(chk, path, (obs_block_info,), accept_verdict=accept)
