"""C02 every optimization phase and every fired rewrite preserves values; fusion keeps block provenance.

 (a) phases: every collection of every enumerated behaviour of ArrayProgram.tla is evaluated in its raw, simplified,
     lowered, fused and pinned form; TLC compares each with the denotation computed by the specification
     (Collection.PhasesVerdict).
 (b) rewrites: every `_simplify_down/_simplify_up/_lower` hook that fires while the collection is optimized is recorded
     with the expression before and after; both are evaluated from their own un-optimized graphs and TLC checks
     Collection.RewriteVerdict (same shape, dtype, values).
 (c) fusion: for every output block the set of un-fused input blocks reached from the fused graph equals the set
     reached from the un-fused lowered graph (Collection.FusionVerdict)."""
from __future__ import annotations

from .. import progcheck, tlc

OBS = ("harness.obs_programs:obs_phases", "harness.obs_programs:obs_rewrites", "harness.obs_programs:obs_fusion")


def _corrupt(evs):
    out = []
    for n, e in enumerate(evs):
        if e["fn"] == "phases" and e["expect"]["data"] and len(e["phases"]) >= 4 and all(p["val"]["kind"] != "raised" for p in e["phases"]):
            v = e["phases"][n % len(e["phases"])]["val"]
            if v["kind"] == "f":
                v["data"][0] = [v["data"][0][0] + v["data"][0][1], v["data"][0][1]] if v["data"][0][1] > 0 else [7, 1]
            else:
                v["data"][0] = int(v["data"][0]) + 1 if v["kind"] == "i" else 1 - int(v["data"][0])
            out.append(e)
        elif e["fn"] == "rewrite" and e["before"]["kind"] != "raised" and e["after"]["kind"] != "raised" and e["after"]["data"]:
            v = e["after"]
            if v["kind"] == "f":
                v["data"][-1] = [v["data"][-1][0] + max(v["data"][-1][1], 1), max(v["data"][-1][1], 1)]
            elif v["kind"] in ("i", "b"):
                v["data"][-1] = int(v["data"][-1]) + 1 if v["kind"] == "i" else 1 - int(v["data"][-1])
            else:
                continue
            out.append(e)
        elif e["fn"] == "fusion" and e["nontrivial"]:
            b = next(b for b in e["blocks"] if b["fused"])
            b["fused"] = b["fused"][:-1] + [b["fused"][-1] + 1000]
            out.append(e)
        if len(out) >= 60:
            break
    return out


def _corrupt_diamond(evs):
    out = []
    for n, e in enumerate(evs):
        if e["fn"] != "diamond" or not e["blocks"]:
            continue
        b = e["blocks"][n % len(e["blocks"])]
        if n % 2 == 0:
            b["reads"] = b["reads"] + [[(b["reads"][0][0] + 1) % 2, b["reads"][0][1], b["reads"][0][2]]] if b["reads"] else [[0, 0, 0]]
        else:
            e["left"] = [e["left"][0], [e["left"][1][1], e["left"][1][2], e["left"][1][0]]]      # another path: other blocks
            if e["left"][1] == [1, 2, 3]:
                continue
        out.append(e)
        if len(out) >= 30:
            break
    return out


def plans(tier):
    return progcheck.standard_plans(tier) + [("d4-grid-contract", 4, 1), ("d2-blockfirst", 4 if tier == "quick" else 16, 1), ("d1-diamond", 2 if tier == "quick" else 8, 1), ("d1-join", 2, 2 if tier == "quick" else 1), ("d2-einsum", 2, 1), ("d3-sq-chain", 2, 8 if tier == "quick" else 1)]


def accept(v):
    # a phase that raises although the raw form computes is C08's subject ("optimization never turns a computable
    # program into one that raises"); C02 is about the values of what is computed
    return v.startswith("ok-") or v.startswith("phase-raised:") or v == "rewrite-result-raises"


def run(chk):
    rd = tlc.new_rundir("C02")
    try:
        from ..modelcheck import add_models

        # design level: the named rewrite rules of Rewrites.tla preserve the denotation on every term of depth <= 2 (and the
        # wrong-axis variants are refuted)
        add_models(chk, ["Rewrites:sound-2d", "Rewrites:transpose-axis-mutant", "Rewrites:reduce-axis-mutant"]
                   + (["Rewrites:sound-3d"] if chk.tier != "quick" else []))
        add_models(chk, ["Fusion:sound", "Fusion:forward-perm-mutant", "Fusion:forward-perm-2d-indistinguishable"])
        progcheck.run_plans(chk, rd, plans(chk.tier), OBS, opts={"no_compute": True}, selftest=_corrupt, accept_verdict=accept)
        # Fusion.tla bound to the code: black-box block provenance of every diamond on the unit grid (one perturbed source
        # block at a time) must be what the specification's block mapping through the transposes predicts
        sub = progcheck.SubCheck(chk, "diamond-provenance")
        progcheck.run_plans(sub, rd, [("d1-diamond", 16, 3 if chk.tier == "quick" else 1)], ("harness.obs_programs:obs_diamond",),
                            opts={"no_compute": True, "only_unit_grids": True}, selftest=_corrupt_diamond, accept_verdict=accept)
        chk.cov["exhaustive"] = True
        chk.cov["rule"] = ("every collection of every enumerated behaviour of ArrayProgram.tla (corpora in parts) x chunk-grid variants: one "
                           "'phases' observation (5 forms vs the TLC-computed denotation), one 'rewrite' observation per distinct fired hook "
                           "(before/after evaluated from their own raw graphs), one 'fusion' observation per fused tree")
        chk.assumptions += ["rewrites whose 'before' expression cannot be evaluated on its own are counted as ok-before-not-evaluable",
                            "a phase that raises where the raw form computes is reported by C08, not here"]
    finally:
        tlc.cleanup(rd)


def replay_cmd(chk, path):
    from ..obs_programs import obs_fusion, obs_phases, obs_rewrites

    return progcheck.replay_case(chk, path, (obs_phases, obs_rewrites, obs_fusion), accept_verdict=accept)
