"""C24 source reads return exactly the requested elements, in bounds.

SourceIO.tla: a source is read only through Read(req), enabled iff req is a basic index inside the source's bounds.  TLC
enumerates slice / rechunk chains (ArrayProgram.tla, lean domains, depth 3 in 1-D, depth 2 in 2-D / 3-D) over sources of several
kinds: recording array-likes without and with a storage grid, with a lock, fancy=False and a custom getitem, wrapped by asarray,
and NumPy arrays with the eager-copy threshold scaled down to 16 bytes (so the deferred-region path is reached with tiny arrays).
Every read request is logged; TLC (SourceIO.IOVerdict) checks each request (basic, in bounds) and that the value computed from
the reads is the denotation, i.e. NumPy indexing of the source."""
from __future__ import annotations

from .. import progcheck, tlc

OBS = ("harness.obs_programs:obs_io",)
SOURCES = [
    ("rec", {"kind": "rec"}),
    ("rec-grid", {"kind": "rec-grid"}),
    ("rec-lock-nofancy-getitem", {"kind": "rec", "lock": True, "fancy": False, "getitem": True}),
    ("rec-asarray", {"kind": "rec", "wrap": "asarray"}),
    ("numpy-limit16", {"kind": "numpy", "numpy_limit": 16}),
    ("numpy", {"kind": "numpy"}),
]


def _corrupt(evs):
    out = []
    for n, e in enumerate(evs):
        reads = [x for x in e.get("ev", []) if x["e"] == "read" and any(q["k"] == "slice" and q["stop"] != 99 for q in x["req"])]
        if e["fn"] != "io" or e["got"]["kind"] == "raised":
            continue
        if n % 2 == 0 and reads:
            q = next(q for q in reads[-1]["req"] if q["k"] == "slice" and q["stop"] != 99)
            q["stop"] = e["shape"][0] + e["shape"][-1] + 5          # beyond the source
        elif e["got"]["data"] and e["got"]["kind"] in ("i", "b"):
            e["got"]["data"][0] = int(e["got"]["data"][0]) + 1
        else:
            continue
        out.append(e)
        if len(out) >= 40:
            break
    return out


def accept(v):
    return v.startswith("ok-")


def run(chk):
    rd = tlc.new_rundir("C24")
    try:
        quick = chk.tier == "quick"
        plans = [("d3-sr1-all", 1, 12), ("d2-sr2", 1, 4), ("d2-sr3", 1, 6)] if quick else [("d3-sr1-all", 2, 1), ("d2-sr2", 3, 1), ("d2-sr3", 2, 1)]
        first = True
        for label, spec in (SOURCES[:5] if quick else SOURCES):
            sub = progcheck.SubCheck(chk, label)
            progcheck.run_plans(sub, rd, plans, OBS, opts={"no_compute": True, "source": spec, "io_mode": "reads"},
                                selftest=_corrupt if first else None, accept_verdict=accept)
            first = False
        chk.cov["exhaustive"] = True
        chk.cov["rule"] = ("every behaviour over {Index, Rechunk} (lean domains: 12 / 25 / 27 basic indices per shape incl. negative steps, "
                           "integers, None; 4^rank rechunk grids) of depth 3 (1-D) / 2 (2-D, 3-D), observed after every action, x 6 source kinds "
                           "x chunk-grid variants; one 'io' observation each (all read requests + computed value)")
        chk.assumptions += ["the NumPy eager-copy threshold is a module constant; it is scaled down by assignment in the harness process "
                            "(no source change) for the 'numpy-limit16' source kind",
                            "zarr / hdf5 back-ends are simulated by the recording array-likes"]
    finally:
        from ..replay import _set_numpy_limit

        _set_numpy_limit(None)
        tlc.cleanup(rd)


def replay_cmd(chk, path):
    import json

    from ..obs_programs import obs_io

    case = json.load(open(path))["case"]
    spec = dict(SOURCES).get(case.get("part", "rec"), {"kind": "rec"})
    return progcheck.replay_case(chk, path, (obs_io,), accept_verdict=accept, opts={"last_only": False, "source": spec, "io_mode": "reads"})
