"""C23 a random array is one fixed realization.

RandomRealization.tla: Construct consumes generator state once; Reinstantiate (a rewrite, an unpickle) must not draw again (the
"redraw" spec mutant violates OneRealization); every Observe must expose the first realization.  TLC enumerates programs over
seeded random bases (RandomState and Generator; randint, poisson, normal, uniform, random; 1-D and 2-D, every lean chunk grid)
followed by one or two operations.  The first computed value of the base is the realization; the driver then observes: the
derived collection (optimized graph, raw graph, compute), the base computed again, a fresh collection over the base, the base
rebuilt from the same seed / shape / chunks, pickle round trips, the derived collection again - TLC (RealizationVerdict) requires
every observation to equal the realization (for derived collections: NumPy applied to the realized base)."""
from __future__ import annotations

from .. import progcheck, tlc
from ..modelcheck import add_models

OBS = ("harness.obs_programs:obs_realization",)


def _corrupt(evs):
    out = []
    for n, e in enumerate(evs):
        if e["fn"] != "realization" or not e["ev"]:
            continue
        e["ev"][n % len(e["ev"])]["fp"] = "0123456789ab"
        out.append(e)
        if len(out) >= 40:
            break
    return out


def plans(tier):
    if tier == "quick":
        return [("d1-random", 1, 1), ("d2-random", 1, 2), ("d3-random", 1, 60), ("sim-random-share", 1, 1), ("sim-random", 1, 2), ("d2-random-pair", 1, 1), ("d2-random-share", 1, 1)]
    return [("d1-random", 1, 1), ("d2-random", 1, 1), ("d3-random", 1, 4), ("sim-random-share", 1, 1), ("sim-random", 1, 1), ("d2-random-pair", 1, 1), ("d2-random-share", 1, 1)]


def run(chk):
    rd = tlc.new_rundir("C23")
    try:
        add_models(chk, ["RandomRealization:ok", "RandomRealization:redraw-mutant"])
        def on_problem(case, clause):
            # the replayer's own structural finding: a random base whose shape / chunks are not the requested ones (e.g.
            # because constructing it returned another live array of the same name)
            if clause == "shape" and "Random" in str(case.get("detail", "")):
                chk.violation(case, "random-array-has-not-the-requested-layout")

        progcheck.run_plans(chk, rd, plans(chk.tier), OBS, opts={"no_compute": True}, selftest=_corrupt, on_problem=on_problem)
        chk.cov["exhaustive"] = True
        chk.cov["rule"] = ("every behaviour of ArrayProgram.tla that starts with a Random action (2 generator kinds x 2 seeds x 5 distributions x "
                           "2 shapes x lean chunk grids) followed by 0, 1 (every lean operation) or 2 operations, pairs of bases that differ only in "
                           "their chunking (both alive), plus two fixed-seed TLC simulations of deep programs (6-7 actions, several "
                           "sources and random bases, elementwise / reductions sharing intermediates); one 'realization' observation "
                           "per program with 9-11 observations of the base and of the derived collection")
        chk.assumptions += ["values are compared after fixed-point quantization (1e-6), equality of realizations is otherwise exact",
                            "array-valued distribution parameters are not generated (DESIGN 6, item 2 is recorded there as a known defect "
                            "of the unchanged tree outside these corpora)"]
    finally:
        tlc.cleanup(rd)


def replay_cmd(chk, path):
    from ..obs_programs import obs_realization

    return progcheck.replay_case(chk, path, (obs_realization,))
