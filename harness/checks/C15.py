"""C15 rechunk plans are valid and respect the block-size budget.

TLC enumerates (old grid, new grid, itemsize, threshold, limit, degree-limit);
plan_rechunk / old_to_new / merge_to_number / divide_to_width are called; Trace_Plan validates.
"""
from __future__ import annotations

from .. import tlc
from ..impl_helpers import decode_plan
from ._plan import run_family


def _corrupt_plan(c):
    plan = c["out"]["plan"]
    # drop the final step (plan no longer ends in new) or, if it is the only one, alter the crosswalk
    if len(plan) > 1:
        c["out"]["plan"] = plan[:-1]
        return c
    cw = c["out"]["cw"]
    for ax in cw:
        for nb in ax:
            if nb and nb[0][2] - nb[0][1] >= 1:
                nb[0][2] -= 1
                return c
    return None


def _corrupt_merge(c):
    if len(c["out"]) >= 1 and c["out"][0] > 0:
        c["out"][0] += 1
        return c
    return None


def _corrupt_divide(c):
    # merge the first two pieces: crosses an old boundary or exceeds the width / minimal count
    if len(c["out"]) >= 2:
        c["out"] = [c["out"][0] + c["out"][1]] + c["out"][2:]
        return c
    return None


def run(chk):
    rd = tlc.new_rundir("C15")
    try:
        presets = ["q1d", "q2d"] if chk.tier == "quick" else ["t1d", "t2d", "t3d"]
        for p in presets:
            run_family(chk, rd, "plan_rechunk", "plan_rechunk", dict(Preset=p), decode_plan, corrupt=_corrupt_plan,
                       shards=4 if chk.tier == "quick" else 5, timeout=3000)
            chk.cov["parts"][f"validate:plan_rechunk[{p}]"] = chk.cov["parts"].pop("validate:plan_rechunk")
        run_family(chk, rd, "merge_to_number", "merge_to_number", dict(NMax=7 if chk.tier == "quick" else 9), decode_plan,
                   corrupt=_corrupt_merge)
        run_family(chk, rd, "divide_to_width", "divide_to_width", dict(NMax=7 if chk.tier == "quick" else 10), decode_plan,
                   corrupt=_corrupt_divide)
        chk.cov["exhaustive"] = True
        chk.cov["rule"] = ("TLC enumerates every pair of chunkings of each preset shape (Planner.RechunkShapes) crossed with the "
                           "configuration tuples (itemsize, threshold, block-size limit, degree limit) of Planner.RechunkCfgs; "
                           "distinct = distinct inputs; every recorded plan and crosswalk validated by TLC (Trace_Plan)")
        chk.assumptions += ["array.rechunk.degree-limit is set per case through dask.config",
                            "unknown (nan) chunk sizes are covered end-to-end by C14/C28, not here"]
    finally:
        tlc.cleanup(rd)


def replay(chk, path):
    from ._plan import replay_case

    return replay_case(chk, path)
