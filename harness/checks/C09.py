"""C09 results do not depend on materialization history or planner configuration.

Naming.tla (model-checked): the lowering cache is keyed by name although lowering reads configuration; it is sound iff a hit
denotes what the key denotes under ANY configuration, so values must be a function of the program alone.  Code level: every
worker process replays one long history of TLC-enumerated programs (neighbours differ minimally and share sub-trees; every chunk
grid of the small sources in sequence); the collections of the last 200 programs stay alive (singleton registry, shared lowering
cache); every program is BUILT under one configuration and COMPUTED under another (every third program has its LAST operation
constructed under the second configuration as well: the setting in effect at construction may differ between an operand and its
consumer), drawn round-robin from the full product of
optimize-graph x rechunk threshold x degree-limit x method x chunk-size x unify policy x unify limit x split_every (384
configurations), and an earlier collection is computed again after later programs were built.  TLC (Collection.HistoryVerdict)
compares every value with the denotation computed by the specification."""
from __future__ import annotations

import json

from .. import cases as casemod
from .. import history, progcheck, replay, tlc
from ..modelcheck import add_models


def plans(tier):
    if tier == "quick":
        return [("d1-reduce-1d7", 64, 1), ("d1-reduce-1d", 16, 2), ("d1-1d", 16, 4), ("d1-2d", 4, 12), ("d1-rspec", 4, 1), ("d2-lean1", 4, 6), ("d2-lean2", 2, 24), ("d3-chain1", 2, 8), ("d3-unify-reduce", 4, 2), ("d4-where-out", 2, 1), ("d3-inplace-dmd", 1, 8)]
    return [("d1-reduce-1d7", 64, 1), ("d1-reduce-1d", 16, 1), ("d1-reduce-2d", 8, 1), ("d1-1d-wide", 16, 1), ("d1-2d", 8, 2), ("d1-rspec", 8, 1), ("d2-lean1", 4, 1), ("d2-lean2", 2, 2), ("d2-lean3", 2, 4),
            ("d2-rechunk-after", 1, 4), ("d3-chain1", 4, 1), ("d3-unify-reduce", 4, 1), ("d4-where-out", 4, 1), ("d3-inplace-dmd", 2, 1), ("d3-inplace-mdm", 2, 1)]


def accept(v):
    return v.startswith("ok-")


def run(chk):
    rd = tlc.new_rundir("C09")
    try:
        add_models(chk, ["Naming:cache"])
        evs, refs = [], {}
        for name, maxvar, stride in progcheck.dev_filter(plans(chk.tier)):
            kw, flags = progcheck.corpus_kwargs(name)
            keep = flags["keep"]
            behs, res = replay.generate_programs(rundir=rd, timeout=3000, **kw)
            chk.add_tlc(res, f"gen:{name}")
            if keep is not None:
                behs = [b for b in behs if keep(b)]
            picked = progcheck.stride_sample(behs, stride, chk.seed)
            del behs
            out = history.run_corpus(picked, max_variants=maxvar, seed=chk.seed, opts={"policy_pairs": name == "d3-unify-reduce"})
            if out.machinery:
                raise tlc.MachineryError(f"spec/NumPy disagreement ({len(out.machinery)}): {out.machinery[0]}")
            for e in out.events:
                e["id"] = len(evs) + 1
                e["corpus"] = name
                refs[e["id"]] = e.pop("_ref", None)
                evs.append(e)
            chk.part(f"history:{name}", replayed_behaviours=len(picked), programs_replayed=out.n_programs, observations=len(out.events),
                     stride=stride, max_variants=maxvar, actions=out.stats)
        # the witness history of finding F26 (one tensordot built and computed under two unification policies in one process)
        for e in history.witness_events():
            e["id"] = len(evs) + 1
            e["corpus"] = "witness"
            refs[e["id"]] = e.pop("_ref", None)
            evs.append(e)
        rejects, results = casemod.validate("Trace_Obs", evs, rd, "C09", shards=12, timeout=3000, heap="3g",
                                            consts=progcheck.MODULE_CONSTS["Trace_Obs"])
        for r in results:
            chk.add_tlc(r, "validate:history")
        by_id = {e["id"]: e for e in evs}
        # observations that agree with each other but not with the denotation: either the program is wrong in any process
        # (C01's subject) or an earlier program of this history changed it.  Decide by replaying the program ALONE in a
        # fresh interpreter: TLC then compares the in-history value with the fresh one.
        suspects = [cid for cid, clause in rejects if clause == "ok-all-observations-agree-but-differ-from-the-denotation"]
        suspects = suspects[:400]
        fresh = history.fresh_values([(refs[c]["prog"], refs[c]["env"], refs[c]["grids"]) for c in suspects])
        second = []
        for cid, fv in zip(suspects, fresh):
            e = by_id[cid]
            second.append({"fn": "history", "id": cid, "expect": e["expect"], "first": fv, "obs": e["obs"], "cfgs": e["cfgs"]})
        rej2 = []
        if second:
            rej2, res2 = casemod.validate("Trace_Obs", second, rd, "C09-fresh", shards=4, timeout=1800, consts=progcheck.MODULE_CONSTS["Trace_Obs"])
            for r in res2:
                chk.add_tlc(r, "validate:history-vs-fresh-process")
        chk.part("fresh-process-reference", suspects=len(suspects), differ_from_fresh=len([1 for _, cl in rej2 if not accept(cl)]))
        for cid, clause in list(rejects) + [(c, cl + "(vs-fresh-process)") for c, cl in rej2]:
            if accept(clause):
                continue
            case = dict(by_id[cid], **(refs[cid] or {}))
            case.pop("env", None)
            chk.violation(case, clause)
        # negative control: corrupted observations must be rejected
        bad = []
        for n, e in enumerate(json.loads(json.dumps(evs[:300]))):
            v = e["obs"][-1]["val"]
            if v["kind"] in ("i", "b") and v["data"]:
                v["data"][0] = int(v["data"][0]) + 1 if v["kind"] == "i" else 1 - int(v["data"][0])
                bad.append(e)
            if len(bad) >= 40:
                break
        rej, _ = casemod.validate("Trace_Obs", bad, rd, "C09-selftest", shards=2, consts=progcheck.MODULE_CONSTS["Trace_Obs"])
        if not bad or {c for c, cl in rej if not accept(cl)} != {b["id"] for b in bad}:
            raise tlc.MachineryError(f"binding self-test failed: {len(rej)} of {len(bad)} corrupted observations rejected")
        chk.part("selftest:corrupted-observations", corrupted=len(bad), rejected=len(rej), passed=True)
        chk.cov["evaluations"] += len(evs)
        chk.cov["traces_validated_against_impl"] += len(evs)
        for e in evs:
            chk.nontrivial(("h", e["id"]))
        if evs:
            chk.sample({"observation": progcheck._shorten(evs[len(evs) // 2]), "program": (refs[evs[len(evs) // 2]["id"]] or {}).get("prog")})
        chk.cov["exhaustive"] = False
        chk.cov["rule"] = ("16 process histories (one per worker) over the enumerated behaviours in sorted order x chunk-grid variants; per "
                           "program: built under configuration A, computed under B and again under A (A, B round-robin over the 384-element "
                           "product of the 8 listed keys), plus one earlier collection of the process recomputed; distinct = observations")
        chk.assumptions += ["configurations are assigned round-robin, not as a full product per program",
                            "a program that raises under every configuration is not judged here (C01 / C08)"]
    finally:
        tlc.cleanup(rd)


def replay_cmd(chk, path):
    """a history violation depends on what ran before: replay the recorded program alone under its two configurations"""
    import dask

    case = json.load(open(path))["case"]
    beh = {"prog": case["prog"], "env": None}
    raise tlc.MachineryError("C09 violations are history dependent; re-run the check (the corpus and schedule are deterministic)")
