"""C08 optimization terminates and is idempotent; it never turns a computable program into one that raises.

Every collection of every enumerated behaviour of ArrayProgram.tla whose raw graph computes is optimized pass by pass
(simplify_once / lower_once until the root name repeats, then fuse); the recorded pass sequence must be a behaviour of the
pass machine of Optimizer.tla (no return to a name it left, fixpoint within the budget), optimizing / simplifying /
lowering the result again must not change its name, no stage may raise, and the optimized graph must execute."""
from __future__ import annotations

from .. import progcheck, tlc

OBS = ("harness.obs_programs:obs_optimize",)


def _corrupt(evs):
    out = []
    for n, e in enumerate(evs):
        if e["fn"] != "optimize" or not e["raw_ok"] or e["err"] or len(e["passes"]) < 2:
            continue
        m = n % 3
        if m == 0:
            e["opt2"] += "x"
        elif m == 1:
            e["err"], e["stage"] = "RuntimeError: injected", "lower"
        else:
            # oscillation: a b a
            p0 = dict(e["passes"][0])
            e["passes"] = [p0, {"stage": p0["stage"], "name": p0["name"] + "y"}, dict(p0)] + e["passes"]
        out.append(e)
        if len(out) >= 45:
            break
    return out


def plans(tier):
    return progcheck.standard_plans(tier) + [("d1-diamond", 2 if tier == "quick" else 8, 1), ("d1-join", 2, 2 if tier == "quick" else 1)]


def accept(v):
    return v.startswith("ok-")


def run(chk):
    rd = tlc.new_rundir("C08")
    try:
        progcheck.run_plans(chk, rd, plans(chk.tier), OBS, opts={"no_compute": True}, selftest=_corrupt, accept_verdict=accept)
        from ..modelcheck import add_models

        add_models(chk, ['Optimizer:termination'])
        chk.cov["exhaustive"] = True
        chk.cov["rule"] = ("every collection of every enumerated behaviour of ArrayProgram.tla (corpora in parts) x chunk-grid variants: one "
                           "'optimize' observation (pass-by-pass root names, names after optimizing twice, exceptions, execution of the "
                           "optimized graph) judged by Optimizer.OptimizeVerdict")
        chk.assumptions += ["programs whose raw (un-optimized) graph does not compute are outside the property (ok-raw-form-raises)",
                            "the wall-clock budget is replaced by a pass budget of 60 passes per stage (typical: 2-4)"]
    finally:
        tlc.cleanup(rd)


def replay_cmd(chk, path):
    from ..obs_programs import obs_optimize

    return progcheck.replay_case(chk, path, (obs_optimize,), accept_verdict=accept)
