"""C21 the Frisky records path computes the same results as the dask graph.

For every collection of the enumerated behaviours of ArrayProgram.tla (alone, and the last collections of a program walked with
one shared `seen` set), `__frisky_graph__()` and `__frisky_records_chunks__()` either decline (NotImplementedError) or must yield
records that form a TaskGraph.tla graph TLC accepts (closed, acyclic, every `__frisky_output_keys__()` key defined), and whose execution by a plain in-process executor gives, for every output key, the block value of the dask
graph (TaskGraph.RecordsVerdict).  In this sandbox every node takes the generic GraphRecordsLayer translation (no native
extension)."""
from __future__ import annotations

from .. import progcheck, tlc
from ..modelcheck import add_models

OBS = ("harness.obs_programs:obs_records",)


def _corrupt(evs):
    out = []
    for n, e in enumerate(evs):
        if e["fn"] != "records" or not e["outvals"] or not e["g"]["defd"]:
            continue
        m = n % 3
        if m == 0:
            e["outvals"][-1]["rec"] = "000000000000"
        elif m == 1:
            g = e["g"]
            g["n"] += 1
            g["deps"].append([])
            g["deps"][g["defd"][-1] - 1] = g["deps"][g["defd"][-1] - 1] + [g["n"]]
        else:
            g = e["g"]
            g["n"] += 1
            g["deps"].append([])
            g["outs"] = g["outs"] + [g["n"]]      # an output key nobody defines
        out.append(e)
        if len(out) >= 45:
            break
    return out


def plans(tier):
    if tier == "quick":
        return [("d1-1d", 1, 6), ("d1-2d", 1, 12), ("d1-lean3", 2, 1), ("d2-lean1", 1, 8), ("d2-lean2", 1, 24), ("d2-lean3", 1, 32),
                ("d1-win-q", 4, 3), ("d2-inplace2", 1, 12), ("d1-advindex", 1, 3), ("d1-diag", 2, 1), ("d2-adv-consumer", 1, 3), ("d2-cre7-chain", 64, 2), ("d3-sq-chain", 2, 12), ("d1-diamond", 2, 12)]
    return [("d1-1d-wide", 3, 1), ("d1-2d", 3, 1), ("d1-lean3", 16, 1), ("d2-lean1", 2, 1), ("d2-lean2", 1, 2), ("d2-lean3", 1, 2),
            ("d1-win", 32, 1), ("d2-inplace2", 2, 1), ("d1-advindex", 4, 1), ("d1-diag", 8, 1), ("d2-adv-consumer", 2, 1), ("d2-cre7-chain", 64, 1), ("d3-sq-chain", 16, 1), ("d1-diamond", 8, 1)]


def run(chk):
    rd = tlc.new_rundir("C21")
    try:
        add_models(chk, ["TaskGraph:pure"])
        declined = {"n": 0, "raised": []}

        def on_raised(case):
            if case.get("declined"):
                declined["n"] += 1
            else:
                # neither a decline nor records: the protocol raised something else
                chk.violation(case, "records-protocol-raised-instead-of-declining")

        progcheck.run_plans(chk, rd, plans(chk.tier), OBS, opts={"no_compute": True, "last_only": False}, selftest=_corrupt,
                            on_raised=on_raised)
        chk.part("declined", not_implemented=declined["n"])
        chk.cov["exhaustive"] = True
        chk.cov["rule"] = ("every collection of the enumerated behaviours (corpora in parts) x {__frisky_graph__, __frisky_records_chunks__}, plus "
                           "the last (up to 3) live collections of every program walked with one shared seen set; one 'records' observation each")
        chk.assumptions += ["native (Rust) layers are absent in this sandbox: every node goes through GraphRecordsLayer (C22 is not applicable)",
                            "NotImplementedError from the protocol is a decline"]
    finally:
        tlc.cleanup(rd)


def replay_cmd(chk, path):
    from ..obs_programs import obs_records

    return progcheck.replay_case(chk, path, (obs_records,), opts={"last_only": False})
