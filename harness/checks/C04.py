"""C04 graphs are closed, acyclic and produce exactly the advertised keys.

TLC enumerates behaviours of ArrayProgram.tla; every collection of every behaviour is built with the real
library, its graph (optimize-graph on and off) is exported into the vocabulary of TaskGraph.tla, and TLC
evaluates GraphVerdict on every exported graph: closed, acyclic (every task can run), every advertised key
defined, `__dask_keys__()` = (collection name) x (block grid of the advertised numblocks) in C order, name
unchanged by building the graph.  A second family covers in-place histories (keys read, collection mutated in
place, keys read again)."""
from __future__ import annotations

from .. import progcheck, tlc

OBS = ("harness.obs_programs:obs_graph",)


def _corrupt(evs):
    out = []
    for n, e in enumerate(evs):
        if e["fn"] != "graph" or not e["g"]["defd"]:
            continue
        m = n % 4
        g = e["g"]
        if m == 0 and any(g["deps"]):
            # a dependency on a key nobody defines
            j = next(i for i, d in enumerate(g["deps"]) if d)
            g["n"] += 1
            g["deps"].append([])
            g["deps"][j] = g["deps"][j] + [g["n"]]
        elif m == 1 and e["keys"]:
            e["keys"][0]["name"] += "x"
        elif m == 2 and e["keys"]:
            e["keys"][-1]["idx"] = [v + 1 for v in e["keys"][-1]["idx"]] or [0]
        elif m == 3 and g["outs"]:
            # a cycle: a leaf below the first output now depends on that output
            k = g["outs"][0]
            seen = set()
            while g["deps"][k - 1] and k not in seen:
                seen.add(k)
                k = g["deps"][k - 1][0]
            g["deps"][k - 1] = g["deps"][k - 1] + [g["outs"][0]]
        else:
            continue
        out.append(e)
        if len(out) >= 40:
            break
    return out


def plans(tier):
    # in-place histories: the keys are read after every action, also after an in-place one on the same object
    extra = [("d2-inplace1-all", 1, 1), ("d2-inplace2-all", 1, 6)] if tier == "quick" else [("d2-inplace1-all", 2, 1), ("d2-inplace2-all", 2, 1)]
    return progcheck.standard_plans(tier) + extra + [("d1-diamond", 3 if tier == "quick" else 8, 1)]


def run(chk):
    rd = tlc.new_rundir("C04")
    try:
        progcheck.run_plans(chk, rd, plans(chk.tier), OBS, opts={"no_compute": True}, selftest=_corrupt)
        from ..modelcheck import add_models

        add_models(chk, ['TaskGraph:pure', 'TaskGraph:impure-mutant'])
        chk.cov["exhaustive"] = True
        chk.cov["rule"] = ("every collection of every enumerated behaviour of ArrayProgram.tla (corpora in parts; the deep corpora are "
                           "exhaustive over the lean parameter domains, strided deterministically in the quick tier) x chunk-grid "
                           "variants x optimize-graph on/off: one exported graph each, judged by TaskGraph.GraphVerdict; plus in-place "
                           "histories (setitem / out= / compute_chunk_sizes after the keys were read)")
        chk.assumptions += ["collections whose graph cannot be built at all (construction raises) are C08's / C01's subject and are "
                            "counted as not_observable_raised, not judged here"]
    finally:
        tlc.cleanup(rd)


def replay_cmd(chk, path):
    import json

    from ..obs_programs import obs_graph

    case = json.load(open(path))["case"]
    if case.get("history"):
        from ..histories import replay_history

        return replay_history(chk, case)
    return progcheck.replay_case(chk, path, (obs_graph,))
