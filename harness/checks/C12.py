"""C12 indexing follows NumPy semantics for every supported index.

TLC enumerates index expressions with their NumPy denotation (NdArray.BasicIndex / Take / MaskAxis / VIndex) or the verdict
"NumPy raises": every basic index of the 1-D sources (start, stop in None + [-n-2, n+2], step in None, +-1, +-2, +-3; every
integer in [-n-1, n]; None inserted), lean index tuples in 2-D / 3-D, integer lists with negatives and repeats, boolean masks along
an axis (all 2^n masks up to n = 4; NumPy and dask masks), dask integer arrays, pointwise .vindex, Ellipsis, every placement of two or three
new axes (None) among slices and integers of 1-D to 3-D sources (IndexNone), and a second index
applied to the result of a first operation (incl. results with unknown chunk sizes).  Every behaviour is replayed under the chunk
grids of its source: a valid index must compute the denotation (or be declined with NotImplementedError), an index NumPy rejects
must raise.  `.blocks` is enumerated separately by Gen_Blocks (the expectation depends on the chunk grid)."""
from __future__ import annotations

from .. import progcheck, replay, tlc


def plans(tier):
    if tier == "quick":
        return [("d1-index-1d-q", 6, 2), ("d1-index-nd", 3, 1), ("d1-index-none", 2, 2), ("d1-advindex", 3, 1), ("d2-advindex-after", 1, 6)]
    return [("d1-index-1d", 16, 1), ("d1-index-nd", 16, 1), ("d1-index-none", 8, 1), ("d1-advindex", 16, 1), ("d2-advindex-after", 3, 1)]


def run(chk):
    rd = tlc.new_rundir("C12")
    try:
        picked = []
        for name, maxvar, stride in progcheck.dev_filter(plans(chk.tier)):
            kw, flags = progcheck.corpus_kwargs(name)
            keep = flags["keep"]
            behs, res = replay.generate_programs(rundir=rd, timeout=3000, **kw)
            chk.add_tlc(res, f"gen:{name}")
            if keep is not None:
                behs = [b for b in behs if keep(b)]
            picked = progcheck.stride_sample(behs, stride, chk.seed)
            out = replay.run_corpus(picked, observers=(), max_variants=maxvar, seed=chk.seed)
            if out.machinery:
                raise tlc.MachineryError(f"spec/NumPy disagreement ({len(out.machinery)}): {out.machinery[0]}")
            declined = 0
            for case, clause in out.violations:
                if clause == "declined":
                    declined += 1
                    continue
                if clause == "raised" and _unknown_sizes_refusal(case):
                    declined += 1          # indexing an array of unknown chunk sizes may be refused (C28)
                    continue
                chk.violation(dict(case, corpus=name), clause)
            chk.cov["evaluations"] += out.n_programs
            chk.cov["traces_validated_against_impl"] += out.n_programs
            chk.part(f"replay:{name}", behaviours=len(behs), replayed_behaviours=len(picked), programs_replayed=out.n_programs,
                     computes=out.n_computes, declined=declined, actions=out.stats, stride=stride, max_variants=maxvar)
            for b in picked:
                chk.nontrivial(("p", str(b["prog"])))
            if picked:
                chk.sample({"prog": picked[len(picked) // 2]["prog"], "expect_last": picked[len(picked) // 2]["env"][-1]})
        blocks_part(chk, rd)
        n, hit = replay.binding_selftest_index(rd, chk.seed)
        if n == 0 or hit == 0:
            raise tlc.MachineryError(f"binding self-test failed: {hit} of {n} mutant programs detected")
        chk.part("selftest:negative-step-ignored", programs=n, detected=hit, passed=True)
        chk.cov["exhaustive"] = True
        chk.cov["rule"] = ("every behaviour of the index corpora (parts) x chunk grids of the source; distinct = programs; a valid index must give "
                           "the TLC-computed denotation or NotImplementedError, an index outside NumPy's domain must raise")
        chk.assumptions += ["an operation on an array with unknown chunk sizes that raises is a refusal (C28), not a violation",
                            "vindex is generated only where NumPy places the point axis first (all axes indexed, or first and last)"]
    finally:
        tlc.cleanup(rd)


def _unknown_sizes_refusal(case):
    return any(a.get("a") in ("MaskSelect",) or (a.get("a") == "AdvIndex" and a.get("mode") == "mask" and a.get("lib") == "da")
               for a in case.get("prog", [])[:-1])


def blocks_part(chk, rd):
    """`.blocks[...]`: Gen_Blocks enumerates (shape, chunk grid, block index per axis) with the expected concatenation."""
    import numpy as np

    from .. import cases as casemod

    cases, res = casemod.generate("Gen_Blocks", {"Tier": chk.tier}, rd, "blocks", timeout=900)
    chk.add_tlc(res, "gen:blocks")
    out = casemod.apply_impl("harness.checks.C12:blocks_adapter", cases)
    bad = 0
    for c, o in zip(cases, out):
        if o is not None:
            bad += 1
            chk.violation({"fn": "blocks", "case": {k: v for k, v in c.items() if k != "expect"}, "detail": o[1]}, o[0])
    chk.cov["evaluations"] += len(cases)
    chk.cov["traces_validated_against_impl"] += len(cases)
    chk.part("blocks", cases=len(cases), mismatches=bad)


def blocks_adapter(c):
    import numpy as np

    import dask_array as da

    shape = tuple(c["shape"])
    a = np.arange(int(np.prod(shape))).reshape(shape)
    x = da.from_array(a, chunks=tuple(tuple(g) for g in c["grid"]))
    idx = []
    for e in c["bidx"]:
        if e["k"] == "int":
            idx.append(e["i"])
        elif e["k"] == "slice":
            f = lambda v: None if v == 99 else v
            idx.append(slice(f(e["start"]), f(e["stop"]), f(e["step"])))
        else:
            idx.append(list(e["l"]))
    want = np.array(c["expect"]["data"], dtype=np.int64).reshape(tuple(c["expect"]["shape"]))
    try:
        got = np.asarray(x.blocks[tuple(idx)].compute(scheduler="sync"))
    except NotImplementedError:
        return None
    except Exception as ex:
        return ("raised", f"{type(ex).__name__}: {str(ex)[:160]}")
    if got.shape != want.shape or not np.array_equal(got, want):
        return ("values", f"blocks{idx}: computed {got.tolist()!r}, expected {want.tolist()!r}")
    return None


def replay_cmd(chk, path):
    import json

    case = json.load(open(path))["case"]
    if case.get("fn") == "blocks":
        o = blocks_adapter(dict(case["case"], expect=case.get("expect", case["case"].get("expect"))))
        chk.cov["evaluations"] += 1
        chk.cov["traces_validated_against_impl"] += 1
        chk.cov["rule"] = "replay of one blocks case"
        chk.sample({"case": case["case"]})
        if o is not None:
            chk.violation(case, o[0])
        return chk.finish()
    return replay.replay_file(chk, path)
