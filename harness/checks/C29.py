"""C29 building and inspecting arrays never touches data.

SourceIO.tla's phase machine: Read(req) of a non-empty selection and UserCall(block of size > 0) are enabled only in phase
"executing" (model-checked: DataOnlyWhenExecuting).  TLC enumerates programs (ArrayProgram.tla) over recording non-NumPy sources
(plain, with a storage grid, wrapped by asarray / asanyarray) and programs with map_blocks user functions (with dtype, and
without dtype so that the meta has to be inferred); the driver walks every collection through constructing, inspecting (shape,
chunks, dtype, name, keys, repr, len, numblocks, transfer estimate, html repr, nbytes, size ...), optimizing (optimize(),
simplify()), graph building and executing, and TLC validates the interleaved log of reads and user calls (SourceIO.IOVerdict)."""
from __future__ import annotations

from .. import progcheck, replay, tlc
from ..modelcheck import add_models

OBS = ("harness.obs_programs:obs_io",)
SOURCES = [
    ("rec", {"kind": "rec"}),
    ("rec-grid", {"kind": "rec-grid"}),
    ("rec-asarray", {"kind": "rec", "wrap": "asarray"}),
    ("rec-asanyarray", {"kind": "rec", "wrap": "asanyarray"}),
]


def _corrupt(evs):
    out = []
    for n, e in enumerate(evs):
        if e["fn"] != "io":
            continue
        ex = [x for x in e["ev"] if x["phase"] == "executing" and (x["e"] == "call" and x["size"] > 0 or x["e"] == "read")]
        if not ex:
            continue
        x = ex[-1]
        if x["e"] == "read" and any(q["k"] == "slice" and q["start"] == q["stop"] and q["start"] != 99 for q in x["req"]):
            continue
        x["phase"] = ("inspecting", "optimizing", "building", "constructing")[n % 4]
        out.append(e)
        if len(out) >= 40:
            break
    return out


def accept(v):
    # the value part of IOVerdict is C24's subject
    return v.startswith("ok-") or v == "value-read-differs-from-numpy-indexing"


def run(chk):
    rd = tlc.new_rundir("C29")
    try:
        quick = chk.tier == "quick"
        add_models(chk, ["SourceIO:phases"])
        plans = ([("d1-1d", 1, 12), ("d2-push1", 1, 4), ("d2-push2", 1, 16), ("d2-lean2", 1, 64)] if quick
                 else [("d1-1d-wide", 2, 1), ("d1-2d", 2, 2), ("d2-lean1", 1, 1), ("d2-lean2", 1, 2), ("d2-lean3", 1, 4), ("d3-sr1", 1, 1)])
        first = True
        for label, spec in ([SOURCES[0], SOURCES[2]] if quick else SOURCES):
            sub = progcheck.SubCheck(chk, label)
            progcheck.run_plans(sub, rd, plans, OBS, opts={"no_compute": True, "source": spec, "io_mode": "lazy"},
                                selftest=_corrupt if first else None, accept_verdict=accept)
            first = False
        # the same sources behind a structured dtype (one field, the program works on the field): meta of record sources
        sub = progcheck.SubCheck(chk, "rec-structured")
        progcheck.run_plans(sub, rd, [("d1-1d", 1, 6)] if quick else [("d1-1d-wide", 2, 1), ("d1-2d", 2, 2)], OBS,
                            opts={"no_compute": True, "source": {"kind": "rec", "view": "structured"}, "io_mode": "lazy"},
                            accept_verdict=accept)
        # user block functions: with dtype, and with meta inference
        mb = ([("d1-mapblocks", 1, 2), ("d2-above-mapblocks", 1, 12), ("d2-below-mapblocks", 1, 12)] if quick
              else [("d1-mapblocks", 8, 1), ("d2-above-mapblocks", 2, 1), ("d2-below-mapblocks", 2, 1)])
        for label, infer in (("mapblocks-dtype", False), ("mapblocks-infer-meta", True)):
            sub = progcheck.SubCheck(chk, label)
            progcheck.run_plans(sub, rd, mb, OBS, opts={"no_compute": True, "io_mode": "lazy", "last_only": False, "infer_meta": infer},
                                accept_verdict=accept)
        chk.cov["exhaustive"] = True
        chk.cov["rule"] = ("every collection of the enumerated behaviours (corpora in parts) over 4 kinds of recording non-NumPy sources (and, for the 1-D / 2-D depth-1 corpora, the same data behind a structured dtype), and "
                           "every behaviour with a MapBlocks action (block function logged) with and without dtype; one 'io' observation each: "
                           "the reads / user calls of construction, inspection (15 accessors), optimize / simplify, graph building, execution")
        chk.assumptions += ["empty selections (x[:0]-style meta probes) and calls on empty blocks are allowed in any phase, as the property says"]
    finally:
        replay.MAPBLOCKS_INFER_META = False
        tlc.cleanup(rd)


def replay_cmd(chk, path):
    import json

    from ..obs_programs import obs_io

    case = json.load(open(path))["case"]
    part = case.get("part", "rec")
    spec = dict(SOURCES).get(part)
    replay.MAPBLOCKS_INFER_META = part == "mapblocks-infer-meta"
    try:
        return progcheck.replay_case(chk, path, (obs_io,), accept_verdict=accept,
                                     opts={"last_only": False, "source": spec, "io_mode": "lazy"})
    finally:
        replay.MAPBLOCKS_INFER_META = False
