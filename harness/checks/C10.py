"""C10 computation is schedule-independent and never mutates inputs.

Model level: TaskGraph.tla is model-checked over every schedule of small graphs: if every Exec is pure (only its own key
changes) all schedules end in the same store; a spec mutant whose tasks update a dependency in place violates it.  Code level:
for every enumerated behaviour of ArrayProgram.tla the graphs of ALL its live collections are merged into one graph (shared
sub-trees get several consumers), exported, and executed by the driver's scheduler in several topological orders (depth-first,
breadth-first, highest/lowest id first, seeded random); every live value and the user's source arrays are fingerprinted before
and after every task.  TLC (TaskGraph.RunVerdict) validates each recorded execution as a behaviour of the machine: enabledness,
purity of every Exec for all live values, results equal to the first schedule's, outputs produced, sources unchanged."""
from __future__ import annotations

from .. import progcheck, tlc
from ..modelcheck import add_models

OBS = ("harness.obs_programs:obs_run",)


def _corrupt(evs):
    out = []
    for n, e in enumerate(evs):
        if e["fn"] != "run" or len(e["ev"]) < 3:
            continue
        m = n % 3
        ev = e["ev"]
        if m == 0:
            # a later task "modified" a live value
            t = next((x for x in ev[1:] if x["post"]), None)
            if t is None:
                continue
            t["post"][0][1] = "ffffffffffff"
        elif m == 1:
            ev[-1]["out"] = "eeeeeeeeeeee"
            if e["order"] == "first":
                e["ref"] = list(e["ref"])
                continue
        else:
            e["ev"] = [ev[-1]] + ev[:-1]     # the last task first: runs before its dependencies
            if not e["g"]["deps"][ev[-1]["k"] - 1]:
                continue
        out.append(e)
        if len(out) >= 45:
            break
    return out


def plans(tier):
    if tier == "quick":
        return [("d1-1d", 1, 6), ("d1-2d", 1, 16), ("d2-lean1", 1, 8), ("d2-lean2", 1, 32), ("d2-lean3", 1, 48), ("d1-win-q", 4, 3), ("d1-pad-udf", 16, 1),
                ("d3-inplace-dmd", 1, 16), ("d3-inplace-ddm", 1, 32), ("d3-inplace-mmd", 1, 8), ("d2-inplace2", 1, 12)]
    return [("d1-1d-wide", 2, 1), ("d1-2d", 2, 1), ("d2-lean1", 2, 1), ("d2-lean2", 1, 2), ("d2-lean3", 1, 2), ("d1-win", 32, 1), ("d1-pad-udf", 16, 1),
            ("d3-inplace-dmd", 1, 1), ("d3-inplace-ddm", 1, 2), ("d3-inplace-mmd", 1, 1), ("d2-inplace2", 2, 1)]


def run(chk):
    rd = tlc.new_rundir("C10")
    try:
        add_models(chk, ["TaskGraph:pure", "TaskGraph:impure-mutant"])
        if chk.tier == "quick":
            progcheck.run_plans(chk, rd, plans(chk.tier), OBS, opts={"no_compute": True, "orders": 3}, selftest=_corrupt)
        else:
            # one corpus at a time: recorded executions carry the fingerprints of all live values before and after every
            # task, and all corpora of the thorough tier together do not fit in memory (50 GB)
            for n, p in enumerate(progcheck.dev_filter(plans(chk.tier))):
                progcheck.run_plans(progcheck.SubCheck(chk, p[0]), rd, [p], OBS, opts={"no_compute": True, "orders": 6},
                                    selftest=_corrupt if n == 0 else None)
        chk.cov["exhaustive"] = False
        chk.cov["rule"] = ("one merged graph per enumerated behaviour (all live collections; corpora in parts incl. sliding-window kernels and "
                           "setitem / mask / out= histories), graphs of at most 70 tasks; one recorded execution per topological order (3 "
                           "quick / 6 thorough: LIFO, FIFO, max-id, min-id, seeded random); distinct = recorded executions")
        chk.assumptions += ["schedules are explored at task granularity by the driver's serial scheduler; thread interleavings inside the "
                            "threaded scheduler are not controlled (DESIGN 2.3)",
                            "a covering set of orders, not all topological orders, is executed per graph; the model-level result "
                            "(purity of every Exec implies one terminal store) is what generalises the observed purity to all orders"]
    finally:
        tlc.cleanup(rd)


def replay_cmd(chk, path):
    from ..obs_programs import obs_run

    return progcheck.replay_case(chk, path, (obs_run,))
