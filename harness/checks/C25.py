"""C25 store writes exactly the array into the requested target regions.

SourceIO.tla: Write(target, region, block) is the only way a target changes; after a store the target holds the source on the
region and its initial values elsewhere (StoreVerdict; with compute=False nothing is written until the returned object is
computed).  Gen_IO.tla enumerates the store calls: source shape x chunk grid x target (same shape without regions, or larger with
an offset region) x lock (True / False / a lock object) x compute x return_stored, with one and with two source/target pairs whose
regions differ.  The real da.store runs on recording targets; TLC validates the recorded before / after contents, and that the
arrays returned by return_stored=True read back the source.  The npy-stack round trip is checked the same way."""
from __future__ import annotations

import json
import os
import shutil

import numpy as np

from .. import cases as casemod
from .. import tlc
from ..replay import spec_value

CONSTS = {"MCMode": "off", "OptNames": "{}", "MBLayouts": "{}", "MBRecs": "{}", "IOReqs": "{}", "IOShape": "{}", "NNames": "{}", "NDescs": "{}", "NCfgs": "{}", "RNodes": "{}", "RMode": "off", "XModules": "{}", "XMode": "off", "FRank": 3, "FDepth": 2, "FMutant": "none", "BNMax": 40, "BMutant": "none"}


def run_store(case):
    """execute one enumerated store call against the real library; returns the observation for TLC"""
    import threading
    import warnings

    import dask

    import dask_array as da

    from ..iosrc import RecordingTarget

    dask.config.set(scheduler="sync")
    srcs, tgts, regions, befores, src_vals = [], [], [], [], []
    for j, p in enumerate(case["pairs"]):
        shape = tuple(p["shape"])
        a = (np.arange(int(np.prod(shape))).reshape(shape) + 100 * (j + 1)).astype(np.int64)
        x = da.from_array(a, chunks=tuple(tuple(c) for c in p["grid"]))
        if p["useregion"]:
            steps = p.get("step") or [1] * len(shape)
            tshape = tuple(o + k * (s - 1) + 2 for s, o, k in zip(shape, p["offset"], steps))
            reg = tuple(slice(o, o + k * (s - 1) + 1, k if k != 1 else None) for s, o, k in zip(shape, p["offset"], steps))
        else:
            tshape, reg = shape, None
        twin = bool(case.get("twin"))
        t = np.zeros(tshape, dtype=np.int64) if twin else np.full(tshape, -(j + 1), dtype=np.int64)
        if twin and j > 0:
            x = srcs[0]                  # the same source into a second, equal-content plain ndarray target
            a = src_vals[0]
        srcs.append(x)
        tgts.append(_PlainTarget(t) if twin else RecordingTarget(t))
        regions.append(reg)
        befores.append(t.copy())
        src_vals.append(a)
    lock = {"true": True, "false": False, "object": threading.Lock()}[case["lock"]]
    single = len(srcs) == 1
    kw = {"lock": lock, "compute": bool(case["compute"]), "return_stored": bool(case["return_stored"])}
    if any(r is not None for r in regions):
        kw["regions"] = regions[0] if single else regions
    obs = {"fn": "store", "id": case["id"], "call": {k: v for k, v in case.items() if k != "id"}, "pairs": [], "err": ""}
    try:
        with warnings.catch_warnings():
            warnings.simplefilter("ignore")
            real = [t.arr if isinstance(t, _PlainTarget) else t for t in tgts]
            res = da.store(srcs[0] if single else srcs, real[0] if single else real, **kw)
            after_call = [t.arr.copy() for t in tgts]
            readbacks = [None] * len(srcs)
            computed = bool(case["compute"])
            if case["return_stored"]:
                outs = [res] if not isinstance(res, (list, tuple)) else list(res)
                vals = [np.asarray(o.compute(scheduler="sync")) for o in outs]
                readbacks = vals
                computed = True
            elif not case["compute"]:
                # nothing may have been written yet
                obs["pairs_before_compute"] = [
                    {"src": spec_value(s), "before": spec_value(b), "after": spec_value(a), "region": _region(r, b.ndim), "computed": 0}
                    for s, b, a, r in zip(src_vals, befores, after_call, regions)]
                dask.compute(res, scheduler="sync")
                computed = True
            for j in range(len(srcs)):
                pr = {"src": spec_value(src_vals[j]), "before": spec_value(befores[j]), "after": spec_value(tgts[j].arr),
                      "region": _region(regions[j], befores[j].ndim), "computed": int(computed)}
                if readbacks[j] is not None:
                    pr["readback"] = spec_value(readbacks[j])
                obs["pairs"].append(pr)
    except Exception as ex:
        obs["err"] = f"{type(ex).__name__}: {str(ex)[:200]}"
    return obs


class _PlainTarget:
    """a plain ndarray target (passed to store as the ndarray itself)"""

    def __init__(self, arr):
        self.arr = arr


def _region(reg, ndim):
    if reg is None:
        return [{"k": "slice", "start": 99, "stop": 99, "step": 99} for _ in range(ndim)]
    return [{"k": "slice", "start": int(s.start), "stop": int(s.stop), "step": 99 if s.step is None else int(s.step)} for s in reg]


def run_npy_stack(case):
    import dask_array as da

    shape = tuple(case["shape"])
    a = np.arange(int(np.prod(shape))).reshape(shape).astype(np.int64)
    x = da.from_array(a, chunks=tuple(tuple(c) for c in case["grid"]))
    d = os.path.join(tlc.CACHE, f"npy-{os.getpid()}-{case['id']}")
    obs = {"fn": "store", "id": case["id"], "call": {"npy_stack_axis": case["axis"]}, "pairs": [], "err": ""}
    try:
        da.to_npy_stack(d, x, axis=case["axis"])
        back = da.from_npy_stack(d)
        val = np.asarray(back.compute(scheduler="sync"))
        obs["pairs"].append({"src": spec_value(a), "before": spec_value(a), "after": spec_value(a), "computed": 0,
                             "region": _region(None, a.ndim), "readback": spec_value(val)})
    except Exception as ex:
        obs["err"] = f"{type(ex).__name__}: {str(ex)[:200]}"
    finally:
        shutil.rmtree(d, ignore_errors=True)
    return obs


def adapter(case):
    return run_npy_stack(case) if "axis" in case else run_store(case)


def run(chk):
    rd = tlc.new_rundir("C25")
    try:
        calls, res = casemod.generate("Gen_IO", {"Tier": chk.tier}, rd, "store", timeout=900)
        chk.add_tlc(res, "gen:store-calls")
        # npy-stack cases: every (shape, grid, axis) of the store shapes
        seen = set()
        stack = []
        for c in calls:
            for p in c["pairs"]:
                key = json.dumps([p["shape"], p["grid"]])
                if key in seen:
                    continue
                seen.add(key)
                for ax in range(len(p["shape"])):
                    stack.append({"id": len(calls) + len(stack) + 1, "shape": p["shape"], "grid": p["grid"], "axis": ax})
        twins = [{"id": len(calls) + len(stack) + 1 + n, "twin": True, "lock": "false", "compute": True, "return_stored": False,
                  "pairs": [dict(p, useregion=False), dict(p, useregion=False)]}
                 for n, p in enumerate([{"shape": [4], "grid": [[2, 2]], "offset": [0]}, {"shape": [2, 3], "grid": [[1, 1], [3]], "offset": [0, 0]}])]
        obs = casemod.apply_impl("harness.checks.C25:adapter", calls + stack + twins)
        raised = [o for o in obs if o["err"]]
        for o in raised:
            chk.violation({"fn": "store", "call": o["call"], "err": o["err"]}, "store-raised")
        good = [o for o in obs if not o["err"]]
        pre = [dict(o, pairs=o["pairs_before_compute"], id=10 ** 6 + o["id"]) for o in good if "pairs_before_compute" in o]
        allobs = good + pre
        for o in allobs:
            o.pop("pairs_before_compute", None)
        rejects, results = casemod.validate("Trace_Obs", allobs, rd, "C25", shards=8, consts=CONSTS, timeout=1800)
        for r in results:
            chk.add_tlc(r, "validate:store")
        by_id = {o["id"]: o for o in allobs}
        for cid, clause in rejects:
            chk.violation({"fn": "store", "call": by_id[cid]["call"], "obs": by_id[cid]}, clause)
        # negative control: corrupted observations must all be rejected
        bad = []
        for n, o in enumerate(json.loads(json.dumps(good[:80]))):
            pr = o["pairs"][-1]
            if n % 2 == 0 and pr["after"]["data"]:
                pr["after"]["data"][0] = int(pr["after"]["data"][0]) + 1
            elif "readback" in pr and pr["readback"]["data"]:
                pr["readback"]["data"][-1] = int(pr["readback"]["data"][-1]) + 1
            else:
                continue
            bad.append(o)
        rej, _ = casemod.validate("Trace_Obs", bad, rd, "C25-selftest", shards=2, consts=CONSTS)
        if not bad or {c for c, _ in rej} != {b["id"] for b in bad}:
            raise tlc.MachineryError(f"binding self-test failed: {len(rej)} of {len(bad)} corrupted observations rejected")
        chk.part("selftest:corrupted-observations", corrupted=len(bad), rejected=len(rej), passed=True)
        chk.cov["evaluations"] += len(allobs)
        chk.cov["traces_validated_against_impl"] += len(allobs)
        chk.part("store", calls=len(calls), npy_stack_cases=len(stack), validated=len(allobs), before_compute_observations=len(pre),
                 raised=len(raised))
        for o in allobs:
            chk.nontrivial(("s", o["id"]))
        chk.sample({"call": calls[len(calls) // 2]})
        chk.cov["exhaustive"] = True
        chk.cov["rule"] = ("every store call of Gen_IO.tla's domain (source shape x chunk grid x {same-shape target, larger target with offset, with and without a region step "
                           "region} x lock x compute x return_stored, single pair and two pairs with different regions) + every (shape, grid, "
                           "axis) npy-stack round trip; compute=False calls are observed before and after computing")
    finally:
        tlc.cleanup(rd)


def replay_cmd(chk, path):
    case = json.load(open(path))["case"]
    call = dict(case["call"], id=1)
    o = adapter(call)
    rd = tlc.new_rundir("C25-replay")
    try:
        if o["err"]:
            chk.violation({"fn": "store", "call": case["call"], "err": o["err"]}, "store-raised")
        else:
            o.pop("pairs_before_compute", None)
            rej, results = casemod.validate("Trace_Obs", [o], rd, "replay", shards=1, consts=CONSTS)
            for cid, clause in rej:
                chk.violation({"fn": "store", "call": case["call"], "obs": o}, clause)
    finally:
        tlc.cleanup(rd)
    chk.cov["evaluations"] += 1
    chk.cov["traces_validated_against_impl"] += 1
    chk.cov["rule"] = "replay of one recorded store call"
    chk.sample({"call": case["call"]})
    return chk.finish()
