"""C05 every compute / persist / optimize entry point agrees.

 (a) For every collection of the enumerated behaviours of ArrayProgram.tla the value is obtained through x.compute(),
     dask.compute(x), dask.compute(other, x), x.persist(), dask.persist(x), dask.optimize(x), x.optimize() and x.to_delayed(); TLC
     (Collection.EntryVerdict) requires all values to agree and the persisted / dask-optimized collections to keep x's name,
     chunks and dtype.
 (b) ArrayProgram.tla's Persist action returns a collection with the same denotation; programs op ; Persist(entry) ; op are
     replayed and the follow-on result must equal the denotation (Collection.PhasesVerdict on the follow-on collection)."""
from __future__ import annotations

from .. import progcheck, tlc

OBS_A = ("harness.obs_programs:obs_entry",)
OBS_B = ("harness.obs_programs:obs_phases", "harness.obs_programs:obs_blocks")


def _corrupt(evs):
    out = []
    for n, e in enumerate(evs):
        if e["fn"] != "entry" or len(e["entries"]) < 4 or any(x["val"]["kind"] == "raised" for x in e["entries"]):
            continue
        ent = e["entries"][2 + n % (len(e["entries"]) - 2)]
        if n % 2 == 0 and ent["val"]["data"] and ent["val"]["kind"] in ("i", "b"):
            ent["val"]["data"][0] = int(ent["val"]["data"][0]) + 1 if ent["val"]["kind"] == "i" else 1 - int(ent["val"]["data"][0])
        elif ent["keeps"]:
            ent["name"] += "x"
        else:
            ent["val"]["shape"] = ent["val"]["shape"] + [1]
        out.append(e)
        if len(out) >= 40:
            break
    return out


def accept(v):
    return v.startswith("ok-") or v.startswith("phase-raised:")


def run(chk):
    rd = tlc.new_rundir("C05")
    try:
        quick = chk.tier == "quick"
        plans_a = ([("d1-1d", 1, 8), ("d1-2d", 1, 24), ("d2-lean1", 1, 12), ("d2-lean2", 1, 48), ("d2-lean3", 1, 64), ("d1-win-sum2", 128, 1), ("d2-inplace1-all", 1, 3)] if quick
                   else [("d1-1d-wide", 3, 1), ("d1-2d", 3, 1), ("d2-lean1", 2, 1), ("d2-lean2", 1, 2), ("d2-lean3", 1, 2), ("d1-win", 128, 1), ("d2-inplace1-all", 2, 1),
                         ("d2-inplace2-all", 1, 2)])
        progcheck.run_plans(chk, rd, plans_a, OBS_A, opts={"no_compute": True}, selftest=_corrupt, accept_verdict=accept)
        plans_b = ([("d3-persist-follow1", 1, 8), ("d2-persist-follow2", 1, 2), ("d2-persist-follow3", 1, 3)] if quick
                   else [("d3-persist-follow1", 2, 1), ("d2-persist-follow2", 3, 1), ("d2-persist-follow3", 2, 1)])
        progcheck.run_plans(chk, rd, plans_b, OBS_B, opts={"no_compute": True}, accept_verdict=accept)
        chk.cov["exhaustive"] = True
        chk.cov["rule"] = ("(a) every collection of the enumerated behaviours (corpora in parts) x 8 entry points; (b) every behaviour "
                           "op ; Persist(x.persist | dask.persist | dask.optimize | x.optimize) ; op over the lean domains: the follow-on "
                           "collection's phases and blocks")
        chk.assumptions += ["collections with unknown chunk sizes are C28's subject"]
    finally:
        tlc.cleanup(rd)


def replay_cmd(chk, path):
    import json

    from ..obs_programs import obs_blocks, obs_entry, obs_phases

    fn = json.load(open(path))["case"].get("fn")
    obs = (obs_entry,) if fn == "entry" else (obs_phases, obs_blocks)
    return progcheck.replay_case(chk, path, obs, accept_verdict=accept)
