"""C17 chunk unification: layouts (this file) and values (replayed through real elemwise ops)."""
from __future__ import annotations

from .. import tlc
from ..impl_helpers import decode_plan
from ._plan import run_family


def _corrupt(c):
    o = c["out"]
    if o["raised"] or not o["grids"]:
        return None
    g = o["grids"][0]
    if not g or not g[0]:
        return None
    g[0] = list(g[0]) + [1]
    return c


def run(chk):
    rd = tlc.new_rundir("C17")
    try:
        done, rej = run_family(chk, rd, "unify_chunks", "unify_chunks", dict(Preset="q" if chk.tier == "quick" else "t"),
                               decode_plan, corrupt=_corrupt, shards=4 if chk.tier == "quick" else 5, timeout=3000)
        values_part(chk, done)
        chk.cov["exhaustive"] = True
        chk.cov["rule"] = ("TLC enumerates operand tuples (every chunking of each operand, broadcast patterns, item sizes) x policy "
                           "(auto/coarse/refine) x unify-chunks-limit (Planner.DomUnify); unify_chunks_expr is called on real "
                           "expressions; layouts validated by TLC against Planner.UnifyVerdict; a sample is also computed through "
                           "da.add / blockwise and compared with NumPy")
    finally:
        tlc.cleanup(rd)


def values_part(chk, done):
    """The unified operands must still compute the same values (checked through the public elemwise path)."""
    import warnings

    import dask
    import numpy as np

    import dask_array as da

    step = max(1, len(done) // (1500 if chk.tier == "quick" else 12000))
    n = 0
    for c in done[::step]:
        arrs, nps = [], []
        for k, o in enumerate(c["ops"]):
            g = tuple(tuple(ax) for ax in o["grid"])
            shape = tuple(sum(ax) for ax in g)
            dt = {1: np.uint8, 4: np.float32, 8: np.float64}[o["itemsize"]]
            a = (np.arange(int(np.prod(shape))).reshape(shape) * (k + 2) % 7).astype(dt)
            nps.append(a)
            arrs.append(da.from_array(a, chunks=g))
        labels = [tuple(o["labels"]) for o in c["ops"]]
        out_ind = tuple(sorted({l for ls in labels for l in ls}))
        with dask.config.set({"array.unify-chunks-policy": c["policy"], "array.unify-chunks-limit": c["limit"]}):
            with warnings.catch_warnings():
                warnings.simplefilter("ignore")
                try:
                    args = []
                    for a, l in zip(arrs, labels):
                        args += [a, l]
                    r = da.blockwise(_aligned_sum(labels, out_ind), out_ind, *args, dtype="f8")
                    got = r.compute(scheduler="sync")
                    blockshapes_ok = all(
                        np.asarray(v).shape == tuple(r.chunks[ax][i] for ax, i in enumerate(key[1:]))
                        for key, v in zip(_flat(r.__dask_keys__()), _flat_blocks(r))
                    )
                except Exception as ex:
                    if c["out"]["raised"]:
                        continue
                    chk.violation(c, f"unify_chunks: elemwise over unified operands raised {type(ex).__name__}: {ex}")
                    continue
        # numpy oracle through einsum-style broadcasting of labels
        want = 0
        for a, l in zip(nps, labels):
            sh = [1] * len(out_ind)
            perm = sorted(range(len(l)), key=lambda i: l[i])
            at = np.transpose(a, perm)
            for i, lab in enumerate(sorted(l)):
                sh[out_ind.index(lab)] = at.shape[i]
            want = want + at.reshape(sh).astype("f8")
        n += 1
        if got.shape != np.shape(want) or not np.array_equal(got, want):
            chk.violation(c, "unify_chunks: values changed by unification")
        elif not blockshapes_ok:
            chk.violation(c, "unify_chunks: block shapes differ from advertised chunks after unification")
    chk.part("values", computed=n)
    chk.cov["traces_validated_against_impl"] += n
    chk.cov["evaluations"] += n


def _aligned_sum(labels, out_ind):
    """block function: blockwise hands every operand block in the operand's own axis order, so
    bring each block to the order of out_ind (size-1 for the labels it lacks) before adding"""
    import numpy as np

    def f(*xs):
        total = 0
        for x, l in zip(xs, labels):
            x = np.asarray(x, dtype="f8")
            perm = sorted(range(len(l)), key=lambda i: l[i])
            xt = np.transpose(x, perm)
            sh = [1] * len(out_ind)
            for i, lab in enumerate(sorted(l)):
                sh[out_ind.index(lab)] = xt.shape[i]
            total = total + xt.reshape(sh)
        return total

    return f


def _flat(keys):
    out = []

    def rec(k):
        if isinstance(k, list):
            for x in k:
                rec(x)
        else:
            out.append(k)

    rec(keys)
    return out


def _flat_blocks(r):
    import dask

    keys = _flat(r.__dask_keys__())
    g = r.__dask_graph__()
    return dask.get(dict(g), keys)


def replay(chk, path):
    from ._plan import replay_case

    return replay_case(chk, path)
