"""C13 slice algebra helpers are exact.

TLC enumerates every (slice | int, axis length, chunking) inside the bounds
(Planner.Dom*), the real helpers are called on each, and TLC validates every
recorded output against the relation of Planner.tla (Trace_Plan).
"""
from __future__ import annotations

import json

from .. import cases, tlc

FAMILIES = {
    # fn: (adapter, quick consts, thorough consts)
    "normalize_slice": ("normalize_slice", dict(NMax=6, SMax=3, Pad=2), dict(NMax=10, SMax=4, Pad=2)),
    "posify_index": ("posify_index", dict(NMax=8, SMax=1, Pad=0), dict(NMax=16, SMax=1, Pad=0)),
    "slice_plan": ("slice_plan", dict(NMax=4, SMax=3, Pad=2), dict(NMax=7, SMax=3, Pad=1)),
    "fuse_slice": ("fuse_slice", dict(NMax=2, SMax=2, Pad=1), dict(NMax=4, SMax=2, Pad=1)),
    "fuse_slice_raw": ("fuse_slice_raw", dict(NMax=2, SMax=1, Pad=1), dict(NMax=3, SMax=2, Pad=1)),
    "compose_slices": ("compose_slices", dict(NMax=3, SMax=1, Pad=1), dict(NMax=5, SMax=1, Pad=1)),
}


def run_family(chk, rd, fn, adapter, consts, selftest=True):
    from ..impl_helpers import decode
    gfn = "fuse_slice" if fn == "fuse_slice_raw" else fn
    gen, gres = cases.generate("Gen_Plan", dict(Fn=gfn, **consts), rd, fn, decode=lambda t, k: decode(fn, t, k))
    chk.add_tlc(gres, f"gen:{fn}")
    done = cases.apply_impl(f"harness.impl_helpers:{adapter}", gen)
    rejects, results = cases.validate("Trace_Plan", done, rd, fn)
    for r in results:
        chk.add_tlc(r, f"validate:{fn}")
    chk.cov["evaluations"] += len(done)
    chk.cov["traces_validated_against_impl"] += len(done)
    byid = {c["id"]: c for c in done}
    for cid, clause in rejects:
        chk.violation(byid[cid], f"{fn}: {clause}")
    for c in done:
        chk.nontrivial((fn, json.dumps({k: v for k, v in c.items() if k not in ("id", "out")}, sort_keys=True)))
    chk.sample(done[len(done) // 2])
    chk.part(f"validate:{fn}", cases=len(done), rejected=len(rejects), consts=consts)
    if selftest:
        binding_selftest(chk, rd, fn, done, {cid for cid, _ in rejects})
    return done, rejects


def _corrupt(fn, c):
    """Change one recorded output field so that the case must be rejected."""
    c = json.loads(json.dumps(c))
    o = c["out"]
    if fn in ("normalize_slice", "compose_slices"):
        if c["n"] == 0:
            return None
        # select nothing where something was selected / everything where nothing was
        c["out"] = {"k": "slice", "start": 0, "stop": 0, "step": 99}
        from ..impl_helpers import ix_to_py
        if len(range(*ix_to_py(c["e" if fn == "normalize_slice" else "a"]).indices(c["n"]))) == 0 or fn == "compose_slices":
            c["out"] = {"k": "slice", "start": 99, "stop": 99, "step": -1} if c["n"] > 1 else None
        return c if c["out"] else None
    if fn == "posify_index":
        c["out"] = o + 1
        return c
    if fn == "slice_plan":
        if o["blockdim"]:
            o["blockdim"] = list(o["blockdim"]) + [1]
            return c
        o["plan"][0][1] = {"k": "int", "i": o["plan"][0][1]["i"] + 1} if c["c"][o["plan"][0][0]] > o["plan"][0][1]["i"] + 1 else None
        return c if o["plan"][0][1] else None
    if fn in ("fuse_slice", "fuse_slice_raw"):
        if o["declined"]:
            return None
        if o["r"]["k"] == "int":
            o["r"]["i"] += 1
            return c
        return None
    return None


def binding_selftest(chk, rd, fn, done, rejected_ids):
    """Negative control: corrupt recorded outputs; TLC must reject exactly those."""
    picked = []
    for c in done[:: max(1, len(done) // 40)]:
        if c["id"] in rejected_ids:
            continue
        cc = _corrupt(fn, c)
        if cc is not None:
            picked.append(cc)
        if len(picked) >= 10:
            break
    if not picked:
        return
    for k, c in enumerate(picked):
        c["id"] = k + 1
    rejects, results = cases.validate("Trace_Plan", picked, rd, fn + "-selftest", shards=1)
    # compose/normalize corruptions may coincide with the right answer; require most to be rejected
    need = len(picked) if fn in ("posify_index", "slice_plan", "fuse_slice", "fuse_slice_raw") else 1
    if len(rejects) < need:
        raise tlc.MachineryError(f"binding self-test failed for {fn}: {len(rejects)}/{len(picked)} corrupted cases rejected")
    chk.part(f"selftest:{fn}", corrupted=len(picked), rejected=len(rejects), passed=True)


def run(chk):
    rd = tlc.new_rundir("C13")
    try:
        for fn, (adapter, q, t) in FAMILIES.items():
            run_family(chk, rd, fn, adapter, q if chk.tier == "quick" else t)
        chk.cov["exhaustive"] = True
        chk.cov["rule"] = (
            "TLC enumerates every input of each helper inside the bounds given under parts.*.consts "
            "(every slice with |start|,|stop|<=n+2, 0<|step|<=SMax, every int, every chunking of every n<=NMax); "
            "each case = one real call whose recorded output TLC validated against Planner.tla; "
            "distinct = distinct (helper, input) pairs"
        )
        chk.assumptions += [
            "helpers are called on the domains they are reachable with from the public API "
            "(_slice_1d/new_blockdim after normalize_index; _compose_slices/_compute_sliced_chunks with unit steps)",
            "NotImplementedError from fuse_slice is a decline",
        ]
    finally:
        tlc.cleanup(rd)


def replay(chk, path):
    from ._plan import replay_case

    return replay_case(chk, path)
