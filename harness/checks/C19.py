"""C19 windowed and scan operations match their NumPy definitions.

TLC enumerates, with their NumPy denotation computed in NdArray.tla (SlidingWindow, Reduce over the window axis, Cumulative,
Diff): sliding_window_view alone and under every reduction (sum, min, max, mean, prod, any, all, var) for EVERY window size, and
cumsum / cumprod (sequential and blelloch) and diff along every axis, over 1-D sources of 1..8 elements and two 2-D sources
(int, float, bool).  Every behaviour is replayed under EVERY chunk grid of its source (up to 128 grids: windows larger than a
block, blocks smaller than the window, many-block scans) and the computed value, shape and dtype are compared with the
denotation.  map_overlap is covered by the Overlap action: a local stencil of radius 1-2 (out[i] = ext(i-r) + A[i] + ext(i+r),
NdArray.Stencil) under every boundary kind (reflect, periodic, nearest, constant, none) along every axis, under every chunk
grid (blocks smaller than the depth included).  Blelloch.tla models the combine plan of the parallel scan (exact for every
block count up to 41); the combine tasks of every real Blelloch graph are validated against it (BlellochVerdict)."""
from __future__ import annotations

from .. import progcheck, replay, tlc


def plans(tier):
    if tier == "quick":
        return [("d1-win", 128, 3), ("d1-scan", 128, 2), ("d1-overlap", 32, 2), ("d1-scan-long", 4, 1)]
    return [("d1-win", 128, 1), ("d1-scan", 128, 1), ("d1-overlap", 128, 1), ("d1-scan-long", 4, 1)]


def _corrupt_plan(evs):
    out = []
    for n, e in enumerate(evs):
        if e["fn"] != "blelloch" or not e["plan"]:
            continue
        if n % 2 == 0:
            e["plan"] = e["plan"][:-1]                                   # a combine step dropped
        else:
            e["plan"][0] = [e["plan"][0][0], e["plan"][0][1], e["plan"][0][2] + 1]     # combines with another value
        out.append(e)
        if len(out) >= 30:
            break
    return out


def run(chk):
    rd = tlc.new_rundir("C19")
    try:
        from ..modelcheck import add_models

        # design level: the combine plan of the Blelloch scan is exact for every block count up to 41 (and the floor-stride
        # variant is refuted); code level: the combine tasks of the real graphs are exactly that plan
        add_models(chk, ["Blelloch:plan", "Blelloch:floor-stride-mutant"])
        sub = progcheck.SubCheck(chk, "blelloch-plan")
        progcheck.run_plans(sub, rd, progcheck.dev_filter([("d1-scan-long", 4, 1), ("d1-scan", 32 if chk.tier == "quick" else 128, 1)]),
                            ("harness.obs_programs:obs_blelloch",), opts={"no_compute": True}, selftest=_corrupt_plan)
        picked = []
        for name, maxvar, stride in progcheck.dev_filter(plans(chk.tier)):
            kw, flags = progcheck.corpus_kwargs(name)
            keep = flags["keep"]
            behs, res = replay.generate_programs(rundir=rd, timeout=3000, **kw)
            chk.add_tlc(res, f"gen:{name}")
            if keep is not None:
                behs = [b for b in behs if keep(b)]
            picked = progcheck.stride_sample(behs, stride, chk.seed)
            out = replay.run_corpus(picked, observers=(), max_variants=maxvar, seed=chk.seed)
            if out.machinery:
                raise tlc.MachineryError(f"spec/NumPy disagreement ({len(out.machinery)}): {out.machinery[0]}")
            declined = 0
            for case, clause in out.violations:
                if clause == "declined":
                    declined += 1
                    continue
                chk.violation(dict(case, corpus=name), clause)
            chk.cov["evaluations"] += out.n_programs
            chk.cov["traces_validated_against_impl"] += out.n_programs
            chk.part(f"replay:{name}", behaviours=len(behs), replayed_behaviours=len(picked), programs_replayed=out.n_programs,
                     computes=out.n_computes, declined=declined, actions=out.stats, stride=stride, max_variants=maxvar)
            for b in picked:
                chk.nontrivial(("p", str(b["prog"])))
            if picked:
                chk.sample({"prog": picked[len(picked) // 2]["prog"], "expect_last": picked[len(picked) // 2]["env"][-1]})
        n, hit = selftest(rd, chk.seed)
        if n == 0 or hit == 0:
            raise tlc.MachineryError(f"binding self-test failed: {hit} of {n} mutant programs detected")
        chk.part("selftest:cumsum-restarts-per-block", programs=n, detected=hit, passed=True)
        chk.cov["exhaustive"] = True
        chk.cov["rule"] = ("every behaviour [source (n,) n in 1..8, (3,5), (4,3) x {int, float, bool}] ; [sliding_window_view(w) for every w | "
                           "window reduction x 8 reducers x every w | cumsum/cumprod x {sequential, blelloch} | diff] x every chunk grid of the "
                           "source (128 for n = 8); map_overlap(stencil radius 1-2) x 5 boundary kinds x axis x every chunk grid")
        chk.assumptions += ["map_overlap is decided for one-axis depths with a local additive stencil; gradient, the moving-window helpers and "
                            "multi-axis depths / trim=False have no denotation in NdArray.tla and are not decided by this check (DESIGN 9)",
                            "float results compared with rtol 1e-9"]
    finally:
        tlc.cleanup(rd)


def selftest(rd, seed):
    """negative control: a cumulative sum that restarts in every block must be detected"""
    kw = dict(progcheck.CORPORA["d1-scan"])
    behs, _ = replay.generate_programs(rundir=rd, timeout=3000, **kw)
    picked = [b for b in behs if b["prog"][-1]["a"] == "Cumulative" and b["prog"][-1]["op"] == "cumsum" and b["prog"][0]["shape"] == [5]][:20]
    replay.MUTANT = "cumsum-per-block"
    try:
        out = replay.run_corpus(picked, max_variants=8, seed=seed, procs=1)
    finally:
        replay.MUTANT = None
    return len(picked), len([1 for _, cl in out.violations if cl == "values"])


def replay_cmd(chk, path):
    return replay.replay_file(chk, path)
