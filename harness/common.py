"""Check context: verdict bookkeeping, known findings, replay files, evidence."""
from __future__ import annotations

import hashlib
import json
import os
import sys
import time

from . import tlc

VERIF = tlc.VERIF
EVIDENCE = os.path.join(VERIF, "evidence")
REPLAYS = os.path.join(VERIF, "replays")
FINDINGS = os.path.join(VERIF, "known_findings.jsonl")


def load_findings():
    out = []
    if os.path.exists(FINDINGS):
        for ln in open(FINDINGS):
            ln = ln.strip()
            if ln and not ln.startswith("#"):
                out.append(json.loads(ln))
    return out


class Check:
    """One run of one property check."""

    def __init__(self, pid: str, tier: str, seed: int):
        self.pid = pid
        self.tier = tier
        self.seed = seed
        self.t0 = time.time()
        self.violations = []  # (case, clause)
        self.known = {}  # finding id -> count
        self.findings = [f for f in load_findings() if f.get("status") == "open" and pid in f.get("properties", [f.get("property")])]
        self.cov = {
            "states": 0,
            "transitions": 0,
            "traces_validated_against_impl": 0,
            "evaluations": 0,
            "distinct_nontrivial": 0,
            "samples": [],
            "rule": "",
            "actions": {},
            "parts": {},
        }
        self.assumptions = []
        self.notes = []
        self._distinct = set()
        self.write_evidence = True  # False for --replay runs

    # ------------------------------------------------------------------ TLC accounting
    def add_tlc(self, res: tlc.TLCResult, part: str | None = None):
        self.cov["states"] += res.distinct
        self.cov["transitions"] += res.generated
        for k, v in res.coverage.items():
            a = self.cov["actions"].setdefault(k, [0, 0])
            a[0] += v[0]
            a[1] += v[1]
        if part:
            p = self.cov["parts"].setdefault(part, {"states": 0, "transitions": 0, "wall_s": 0.0})
            p["states"] += res.distinct
            p["transitions"] += res.generated
            p["wall_s"] = round(p["wall_s"] + res.wall, 2)

    def part(self, name: str, **kv):
        p = self.cov["parts"].setdefault(name, {})
        p.update(kv)

    def sample(self, s, limit=6):
        if len(self.cov["samples"]) < limit:
            self.cov["samples"].append(s)

    def nontrivial(self, key):
        """count a distinct non-trivial case (key must be hashable / json-able)"""
        if not isinstance(key, (str, int, tuple)):
            key = json.dumps(key, sort_keys=True, default=str)
        self._distinct.add(key if isinstance(key, (int, str)) else hashlib.md5(repr(key).encode()).hexdigest())

    # ------------------------------------------------------------------ verdicts
    def violation(self, case, clause: str, matcher_ctx: dict | None = None):
        """Report a case that breaks the property.  Attributed to a known finding only
        when a finding's matcher accepts (case, clause)."""
        from . import findings as fmod

        for f in self.findings:
            if fmod.matches(f, self.pid, case, clause, matcher_ctx or {}):
                self.known[f["id"]] = self.known.get(f["id"], 0) + 1
                return False
        self.violations.append((case, clause))
        return True

    def finish(self, level="model_checking") -> int:
        os.makedirs(EVIDENCE, exist_ok=True)
        os.makedirs(REPLAYS, exist_ok=True)
        self.cov["distinct_nontrivial"] = max(self.cov["distinct_nontrivial"], len(self._distinct))
        for fid, n in sorted(self.known.items()):
            f = next(x for x in self.findings if x["id"] == fid)
            print(f"KNOWN-FINDING: property={self.pid} {f['what']} ({n} cases; finding {fid})")
        rc = 0
        seen = set()
        for case, clause in self.violations[:50]:
            blob = json.dumps({"property": self.pid, "clause": clause, "case": case}, sort_keys=True, default=str)
            h = hashlib.sha1(blob.encode()).hexdigest()[:12]
            if h in seen:
                continue
            seen.add(h)
            path = os.path.join(REPLAYS, f"{self.pid}-{h}.json")
            with open(path, "w") as fh:
                fh.write(blob)
            print(f"VIOLATION property={self.pid} replay={path}")
            print(f"  clause: {clause}")
            rc = 1
        if len(self.violations) > 50:
            print(f"  ... {len(self.violations) - 50} further violating cases not written")
        ev = {
            "property_id": self.pid,
            "tier": self.tier,
            "seed": self.seed,
            "level": level,
            "coverage": self.cov,
            "assumptions": self.assumptions,
            "wall_s": round(time.time() - self.t0, 2),
            "violations": len(self.violations),
        }
        if self.known:
            ev["coverage"]["known_findings_met"] = dict(self.known)
        if self.notes:
            ev["coverage"]["notes"] = self.notes
        if not ev["coverage"]["samples"]:
            ev["coverage"]["samples"] = ["(no sample recorded)"]
        if self.write_evidence:
            with open(os.path.join(EVIDENCE, f"{self.pid}.json"), "w") as fh:
                json.dump(ev, fh, indent=1, default=str)
        print(
            f"{self.pid} {self.tier}: states={self.cov['states']} transitions={self.cov['transitions']} "
            f"validated={self.cov['traces_validated_against_impl']} evaluations={self.cov['evaluations']} "
            f"nontrivial={self.cov['distinct_nontrivial']} violations={len(self.violations)} "
            f"known={sum(self.known.values())} wall={ev['wall_s']}s"
        )
        return rc


def chunk_list(xs, n):
    """split xs into n nearly equal contiguous shards (non-empty ones only)"""
    xs = list(xs)
    k, m = divmod(len(xs), n)
    out = []
    i = 0
    for j in range(n):
        sz = k + (1 if j < m else 0)
        if sz:
            out.append(xs[i : i + sz])
        i += sz
    return out


def env_seed() -> int:
    try:
        return int(os.environ.get("VERIF_SEED", "0"))
    except ValueError:
        return 0
