"""Generates /verif/MANIFEST.json from the table below (python -m harness.manifest)."""
from __future__ import annotations

import json
import os

VERIF = os.path.dirname(os.path.dirname(os.path.abspath(__file__)))

BASELINE_OFF = (
    "cd /repo && env -u DASK_ARRAY_VERIF /venv/bin/python -m pytest -ra -q -p no:cacheprovider --timeout=900 "
    "--continue-on-collection-errors"
)

# property -> (technique, level text, level note, design ref)
CLAIMED = {
    "C01": (
        "TLC-enumerated behaviours of ArrayProgram.tla (with their NdArray.tla denotations) replayed into dask_array",
        "Exhaustive within bounds, depth 1: TLC enumerates every behaviour of ArrayProgram.tla that builds one source (every "
        "preset shape incl. 0- and 1-length axes, kinds int/float/bool) and applies one instance of any of the 28 modelled "
        "operations, and computes the denotation (shape, kind, values) of the result in NdArray.tla; each behaviour is replayed "
        "into dask_array under the chunk grids of its source and the computed values, shape, dtype and advertised shape/dtype are "
        "compared with the denotation (NumPy runs the same program as a second oracle: spec != NumPy is a machinery error). "
        "Added families (last collection compared): cumsum / cumprod and reductions over 9..33 unit blocks (Blelloch levels, deep "
        "reduction trees), two einsum patterns, joins of two elementwise branches, map_overlap stencils under the five boundary "
        "kinds, indices with two or three new axes, advanced indices, diagonals, plain map_blocks. "
        "The corpora do not depend on the seed. General compositions are claimed by C02 / C08, not here.",
        "Trusted: TLC, NdArray.tla (cross-checked against NumPy on every behaviour), harness/replay.py. Known findings F11-F15 "
        "(pad wrap wider than the axis, repeat/sliding_window_view/min/max on arrays with a zero-length axis, argmax(axis=None) "
        "ties) are reported as KNOWN-FINDING. Binding negative control: flip replaced by identity must be detected.",
        "DESIGN.md §4 C01, §9",
    ),
    "C02": (
        "TLC-enumerated ArrayProgram behaviours replayed; per-phase values, every fired rewrite (before/after) and fused-block "
        "provenance recorded from dask_array and validated by TLC (Trace_Obs: Collection.PhasesVerdict/RewriteVerdict/FusionVerdict)",
        "Exhaustive within bounds over the lean parameter domains (strided deterministically in the quick tier): every behaviour "
        "of ArrayProgram.tla of depth 1, of depth 2 (any operation, then any operation on its result; and the directed family "
        "'anything, then slice / take / rechunk'), and slice/rechunk chains of depth 3, each under chunk-grid variants. For every "
        "collection the raw, simplified, lowered, fused and pinned forms are executed by the driver's own scheduler and compared by "
        "TLC with each other and with the TLC-computed denotation; every _simplify_down/_simplify_up/_lower hook that fires is "
        "recorded with the expressions before/after, both evaluated from their own un-optimized graphs, and TLC checks equal shape, "
        "dtype and values; for fused trees the input blocks reached per output block must equal those of the un-fused graph. "
        "Design level: Rewrites.tla states seven named pushdown / fusion rules over a term language and TLC checks on every term of "
        "depth <= 2 that each enabled rule instance preserves the denotation (wrong-axis variants are refuted). Directed families "
        "added after seeded changes: operands on different grids ; elemwise ; take / slice / rechunk ; a grid-DEPENDENT per-block "
        "function (placeholder denotation: every form must agree with the raw form), and 'diamonds' (one fusable node reached "
        "through two differently transposed paths, all 216 triples of 3-D permutations).",
        "A phase that raises where the raw form computes is reported by C08 (accepted here). Binding negative control: corrupted "
        "observations must all be rejected by TLC. Trusted: harness/obs_programs.py, harness/record.py (wrappers), NdArray.tla.",
        "DESIGN.md §4 C02, §9",
    ),
    "C03": (
        "TLC-enumerated ArrayProgram behaviours replayed; every output block of the pinned graph recorded (shape, dtype) and "
        "validated by TLC against the advertised layout (Trace_Obs: Collection.BlocksVerdict)",
        "Exhaustive within bounds (same corpora as C02): the advertised shape/chunks/dtype are read before any graph exists, the "
        "pinned graph is executed key by key, and TLC checks that there is exactly one block per index of the advertised grid, each "
        "with the advertised per-axis size and dtype, and that the assembled result has the advertised shape and dtype (unknown "
        "sizes only fix the number of blocks). Directed family: balanced rechunk ; explicit rechunk ; map_blocks with a "
        "declared chunks= (the declaration is frozen against the advertised grid).",
        "Collections whose graph cannot be built or executed are C08's / C01's subject (counted, not judged).",
        "DESIGN.md §4 C03, §9",
    ),
    "C04": (
        "TLC-enumerated ArrayProgram behaviours replayed; exported task graphs (optimize-graph on and off) validated by TLC against "
        "TaskGraph.tla (GraphVerdict); TaskGraph.tla itself model-checked over all schedules of small graphs",
        "Exhaustive within bounds (same corpora): for every collection, `__dask_keys__()` and `__dask_graph__()` are exported into "
        "the vocabulary of TaskGraph.tla and TLC checks: every dependency defined (closed), every task can run (acyclic: least "
        "fixpoint of runnable tasks = all tasks), every advertised key defined, keys = (collection name) x (advertised block grid) "
        "in C order, name unchanged by building the graph. Includes the 'diamond' family (a fusable node under two transposed "
        "paths, creation and from_array sources, every triple of 3-D permutations).",
        "Binding negative control: graphs with an injected dangling dependency, cycle, renamed or shifted key must all be rejected.",
        "DESIGN.md §4 C04, §9",
    ),
    "C05": (
        "TLC-enumerated ArrayProgram behaviours replayed; the value through 8 entry points and the identity of returned collections "
        "recorded and validated by TLC (Collection.EntryVerdict); Persist actions (denotation kept) followed by further operations",
        "Exhaustive within bounds over the lean domains (strided in the quick tier): (a) for every collection of the corpora, "
        "x.compute(), dask.compute(x), dask.compute(other, x), x.persist(), dask.persist(x), dask.optimize(x), x.optimize() and "
        "x.to_delayed() (every block computed separately and assembled) must give the same value, and the persisted / "
        "dask-optimized collections must keep x's name, chunks and dtype; (b) behaviours op ; Persist(entry) ; op: the follow-on "
        "collection must compute the denotation in every phase with the advertised block sizes.",
        "Known finding F01 (dask.optimize / dask.persist go through dask's generic optimizer, which breaks whenever that path does "
        "not build x's own pinned graph) is reported as KNOWN-FINDING, identified by that structural trigger; follow-on operations "
        "after those two entry points are explored only where the trigger does not apply.",
        "DESIGN.md §4 C05, §9",
    ),
    "C06": (
        "Naming.tla (Mint enabled iff the name is new or bound to the same descriptor; cache soundness model-checked); process "
        "histories of TLC-enumerated programs replayed, every re-observed node name / graph key validated by TLC (Naming.MintVerdict)",
        "Per worker process one history of consecutive enumerated behaviours (neighbours differ minimally: same source under every "
        "chunk grid, same operation with other parameters, random arrays with equal seeds and different layouts, rechunk specs, "
        "persisted graphs, sliding-window reductions, creation arrays with USER-PINNED names under every absorbed operation, slice / "
        "rechunk chains of depth 3).  For every collection every expression node of the raw / simplified / lowered "
        "/ fused trees (shape, chunks, dtype) and every key of the raw and of the pinned graph (block shape, dtype, value "
        "fingerprint) is registered; a name or key seen before in the process is emitted together with its earlier descriptor and "
        "TLC rejects any difference.",
        "Names that differ for equal arrays are not judged. Histories are per worker process (16), not across workers.",
        "DESIGN.md §4 C06, §9",
    ),
    "C07": (
        "Naming.tla identity relation; TLC-enumerated programs built here, built again, cloudpickled, and rebuilt / unpickled in "
        "fresh interpreters with another hash seed; identity records validated by TLC (Naming.IdentityVerdict)",
        "A deterministic stride of the corpora (NumPy sources, seeded random arrays of both generator kinds, rechunk specs, "
        "reductions, two-operation programs, nodes with two fusable dependencies (Join), einsum patterns that pick index letters "
        "while parsing, map_blocks with a harness function / an importable NumPy function / a wrapper borrowing its identity): per "
        "program five identity records - built, built again in the same process, pickle "
        "round trip in the same process, built in fresh interpreters started with PYTHONHASHSEED=4242 and =17, unpickled in the first "
        "interpreter - each with the collection name, `__dask_keys__()`, the optimized graph's key set, "
        "`__frisky_output_keys__()`, chunks, dtype and a fingerprint of the computed values; TLC requires all to equal the first.  Between "
        "the two in-process builds an unrelated history step runs (the genuine numpy.round used as a block function elsewhere).",
        "Untokenizable sources are not generated. Fixed: hash-seed dependent fused layer names (fix: 6910e2c) and einsum names "
        "(fix: bfb6d0d), both found by this check.",
        "DESIGN.md §4 C07, §9",
    ),
    "C08": (
        "TLC-enumerated ArrayProgram behaviours replayed; pass-by-pass optimization traces recorded and validated by TLC against "
        "the pass machine of Optimizer.tla (OptimizeVerdict); Optimizer.tla model-checked for termination",
        "Exhaustive within bounds (same corpora): every collection whose raw graph computes is simplified and lowered pass by pass "
        "(root name after every simplify_once / lower_once), fused, and optimized / simplified / lowered a second time. TLC checks "
        "that no stage raises, the pass sequence never returns to a name it left and ends within the pass budget, the second "
        "optimization keeps the name, and the optimized graph executes. Includes the 'diamond' family (conflicting block mappings "
        "in blockwise fusion).",
        "Known finding F10 (a second optimize() simplifies slice nodes created by lowering next to pad/roll concatenates) is reported "
        "as KNOWN-FINDING. Fixed: reshape_rechunk IndexError (fix: commit c10f59b).",
        "DESIGN.md §4 C08, §9",
    ),
    "C09": (
        "Naming.tla cache soundness (model-checked); long process histories of TLC-enumerated programs with earlier collections kept "
        "alive, built under one planner configuration and computed under another; values validated by TLC (Collection.HistoryVerdict), "
        "suspects re-validated against a fresh interpreter",
        "16 process histories over the sorted corpora (every reduction x split_every over 1-D sources of up to 7 blocks under all "
        "chunk grids, all depth-1 programs, rechunk specs, two-operation programs): the collections of the last 200 programs stay "
        "alive (singleton registry, lowering cache); each program is built under configuration A, computed through the kept object "
        "under B and again under A (A, B round-robin over the 384-element product of optimize-graph, rechunk threshold / "
        "degree-limit / method, chunk-size, unify policy / limit, split_every), and an earlier collection of the process is computed "
        "again later.  Every third program has its LAST operation constructed under B as well, the directed family 'operands on "
        "different grids ; elemwise ; reduction / scan / index' runs under every ordered pair of unification policies, .chunks / "
        ".dtype are evaluated right after construction (cached under the configuration in effect then), and a sibling collection of "
        "the same program is computed before and after the last one (in-place and masked-ufunc histories included).  TLC compares all observations of a collection with each other; observations that agree with each other but "
        "not with the denotation are replayed alone in a fresh interpreter and TLC compares the in-history value with the fresh one.",
        "Known finding F26 (lowering cache serves the unification of another policy for a tensordot of two views of one source) is "
        "reported as KNOWN-FINDING from its witness history, F36 (the unification policy is read when an elementwise expression's "
        "chunks are first evaluated and again when it is lowered) from the directed family. Configurations are assigned round-robin, not as a full product per program.",
        "DESIGN.md §4 C09, §9",
    ),
    "C10": (
        "TaskGraph.tla model-checked over all schedules of small graphs (pure: one terminal store; in-place mutant: violated); recorded "
        "executions of merged graphs of TLC-enumerated programs in several topological orders validated by TLC (TaskGraph.RunVerdict)",
        "Model level (exhaustive): every schedule of the constant graphs; if every Exec only adds its own key, all schedules end in the "
        "same store.  Code level: for every enumerated behaviour (corpora incl. sliding-window kernels and setitem / mask / out= "
        "histories, np.pad-style callables that edit their vector in place) the graphs of all live collections are merged into one graph, exported and executed by the driver's scheduler in "
        "LIFO, FIFO, max-id, min-id and seeded random topological orders; every live value and the user's source arrays are "
        "fingerprinted before and after every task.  TLC validates each execution as a behaviour of the machine: tasks enabled when "
        "run, no live value changed by any task, results equal to the first order's, outputs produced, sources unchanged.",
        "Task granularity only; thread interleavings of the threaded scheduler are not controlled. Graphs above 70 tasks are skipped. "
        "A covering set of orders per graph, not all of them: the model-level theorem generalises observed purity to all orders.",
        "DESIGN.md §4 C10, §9",
    ),
    "C11": (
        "TLC-enumerated histories of ArrayProgram.tla (handles onto denotations; in-place actions replace env[target] only) "
        "replayed into dask_array with every live collection compared after every in-place action",
        "Exhaustive within bounds over the lean domains: every behaviour over {Index, Elemwise, Rechunk, Transpose} and the in-place "
        "actions SetItem (scalar / collection value; integer, slice, negative, stepped indices), MaskSet (NumPy and dask boolean "
        "masks), OutUfunc (out=x) of depth 3 (1-D source) / 2 (2-D, 3-D sources) that contains an in-place action, x chunk-grid "
        "variants.  After every in-place action and at the end, every live collection (the target, collections derived before and "
        "after) is computed and compared with its current denotation in the specification's env; the user's source arrays are "
        "compared with their initial contents.",
        "Known finding F20 (x[i, ::-1] = v raises at graph build) is reported as KNOWN-FINDING. Fixed by fix: commits: setitem with a "
        "multi-chunk dask value (53f0c33), slicing after out= (b433393). Binding negative control: in-place actions replayed as "
        "no-ops must be detected.",
        "DESIGN.md §4 C11, §9",
    ),
    "C12": (
        "TLC-enumerated index expressions of ArrayProgram.tla (basic, integer lists, boolean masks, dask integer arrays, vindex, "
        "Ellipsis) with NdArray.tla denotations replayed into dask_array; `.blocks` cases enumerated by Gen_Blocks.tla with the "
        "expected concatenation",
        "Exhaustive within bounds: every basic index of the 1-D sources (n <= 5: start, stop in None + [-n-2, n+2], step in None, "
        "+-1, +-2, +-3 in the thorough tier; every integer in [-n-1, n]; None inserted), lean index tuples in 2-D / 3-D, integer "
        "lists with negatives / repeats / out-of-bounds, all 2^n boolean masks along an axis up to n = 4 (NumPy and dask masks), "
        "dask integer arrays, pointwise .vindex, Ellipsis, every placement of two or three None entries among slices and integers "
        "(1-D to 3-D), and a second index on the result of a first operation (incl. results "
        "with unknown chunk sizes); `.blocks[...]` with integers, slices and lists over every chunk grid (non-empty selections). "
        "A valid index must compute the TLC-computed denotation under every chunk grid (or be declined with NotImplementedError), "
        "an index NumPy rejects must raise.",
        "Known findings F27 (out-of-bounds dask integer array index does not raise), F28 (vindex with a kept axis as root), F29 "
        "(slice after a dask-integer-array index raises in simplify) are reported as KNOWN-FINDING. False alarm corrected: empty block "
        "selections in `.blocks` (no selected block to concatenate) were removed from the domain.",
        "DESIGN.md §4 C12, §9",
    ),
    "C13": (
        "TLC-enumerated helper inputs; recorded outputs validated by TLC against Planner.tla (Trace_Plan)",
        "Exhaustive within bounds: TLC enumerates every (slice|int, axis length, chunking, pair of indices) of the "
        "bounded domain, the real helpers (normalize_slice, posify_index, normalize_index+_slice_1d+new_blockdim+"
        "_compute_sliced_chunks, fuse_slice, _compose_slices) are called on each, and TLC evaluates the relation of "
        "Planner.tla (selection preserved, pieces inside blocks and concatenating to the selection in order, chunk sizes "
        "= piece lengths) on every recorded output. Boundary arithmetic bugs have small witnesses, so small-scope "
        "exhaustiveness is the right level.",
        "Trusted: TLC, the transcription of CPython slice semantics in ChunkAlgebra.tla (cross-checked against CPython by "
        "setup self-test), the JSON adapters in harness/impl_helpers.py. Bounds: n<=4..7, |step|<=3.",
        "DESIGN.md §4 C13",
    ),
    "C14": (
        "TLC-enumerated ArrayProgram behaviours with Rechunk / RechunkSpec actions replayed; advertised chunks validated by TLC "
        "(Collection.RechunkSpecVerdict) against the specification and normalize_chunks, blocks and per-phase values validated "
        "like C03 / C02",
        "Exhaustive within bounds over the lean domains: rechunk by explicit grid and by specification (ints incl. larger than the "
        "axis, -1, None, 'auto'; tuple / dict / scalar form; balance) alone, after every operation, before every operation and in "
        "slice/rechunk chains of depth 3.  TLC checks that the advertised chunks are a chunking of the shape, equal what "
        "normalize_chunks gives for the same arguments, and equal the requested layout axis by axis (uniform size with a smaller "
        "last block, whole axis, previous chunks); with balance=True: a chunking with no more blocks than requested.  The rechunked "
        "collection and its consumers are executed: block sizes = advertised chunks, values in every phase = the denotation. Joint "
        "observation: programs of one process that read the same source with the same rechunks and differ in the window they take "
        "are computed TOGETHER in one graph (dask.compute(a, b)); each must keep the value it has alone (Collection.JointVerdict).",
        "Unknown (nan) sizes along unchanged axes are not generated. False alarm corrected: a 'balanced result has no larger "
        "spread' clause demanded more than the property states and was removed.",
        "DESIGN.md §4 C14, §9",
    ),
    "C18": (
        "TreeReduce.tla model-checked over every tree (any contiguous group of <= split_every partials merged per step); "
        "TLC-enumerated reductions with NdArray.tla denotations replayed under every chunk grid",
        "Model level (exhaustive): 10 reduction kinds x every input of length <= 5 over {0, 1, 3, NaN} x every chunking x every tree: "
        "the partials always determine the flat reduction.  Code level: every reduction (sum, prod, min, max, any, all, mean, var, "
        "nansum, nanmin, nanmax, nanmean, argmin, argmax with and without axis, count_nonzero, ptp, topk) x axis subsets x keepdims "
        "(and nanargmin / nanargmax) x split_every in {default, 2, 3, {0:2, 1:3}} over int / bool / two NaN-carrying source kinds (regular "
        "and mostly-NaN irregular: blocks with all-NaN lanes next to partly-NaN lanes) (5), (7), (3,4), (2,3,2), replayed "
        "under the chunk grids of the source (all 64 grids of the 7-element source, i.e. trees three levels deep), plus reduction ; "
        "slice and (slice | rechunk | transpose | elemwise) ; reduction compositions.",
        "Known finding F15 (argmax(axis=None) ties in block order) is reported as KNOWN-FINDING; F14 was repaired (fix: 4d53064). "
        "std, moment and weighted average are not modelled.",
        "DESIGN.md §4 C18, §9",
    ),
    "C19": (
        "TLC-enumerated window / scan operations with NdArray.tla denotations replayed under every chunk grid; Blelloch.tla (combine "
        "plan of the parallel scan) model-checked and the combine tasks of the real graphs validated against it by TLC",
        "Exhaustive within bounds: sliding_window_view alone and under 8 reducers for every window size, cumsum / cumprod "
        "(sequential and blelloch) and diff along every axis, over 1-D sources of 1..8 elements and two 2-D sources (int, float, "
        "bool), each replayed under every chunk grid of its source (128 grids for 8 elements: windows spanning many blocks, blocks "
        "smaller than the window, 8-block scans); map_overlap with a local stencil of radius 1-2 (NdArray.Stencil) under the five "
        "boundary kinds along every axis under every chunk grid (blocks smaller than the depth included).",
        "gradient, the moving-window helpers and multi-axis depths / trim=False of map_overlap have no denotation in NdArray.tla and "
        "are not decided by this check (partial coverage of the property, stated in DESIGN.md §9).",
        "DESIGN.md §4 C19, §9",
    ),
    "C20": (
        "TLC-enumerated ArrayProgram behaviours with MapBlocks actions replayed; every invocation of the block function recorded and "
        "validated by TLC against the layout snapshot (MapBlocksInfo.BlockInfoVerdict)",
        "Exhaustive within bounds: the block function derives each element's global position only from the block_info / block_id it "
        "is given.  Programs place the call alone (every preset shape and grid), above every lean operation and above "
        "sliding-window reductions over every chunking of 1-D sources up to 8 elements, below every lean operation, and in chains "
        "with slices / rechunks / transposes.  TLC requires every invocation to be a block of the layout advertised when map_blocks "
        "was called (location on the grid, array-location = extent of that block, chunk-shape / num-chunks / shape consistent, "
        "block_id = chunk-location) with the block handed over having exactly that shape, and the computed value to equal the "
        "denotation.",
        "Culled or repeated invocations are allowed. Computations that raise are C08's subject.",
        "DESIGN.md §4 C20, §9",
    ),
    "C15": (
        "TLC-enumerated (old grid, new grid, configuration) inputs; recorded plans and crosswalks validated by TLC (Trace_Plan)",
        "Exhaustive within bounds: every pair of chunkings of every preset shape (1-D to 3-D) x (itemsize, threshold, "
        "block-size limit, degree limit) tuples; plan_rechunk, old_to_new and merge_to_number are called and TLC checks "
        "Planner.RechunkPlanVerdict (finite list of chunkings of the shape ending in new, every step within max(limit, largest "
        "old, largest new), crosswalk tiles every new block exactly once with contiguous in-bounds pieces and equals the unique "
        "tiling) and MergeVerdict.",
        "Known finding F05 (steps inserted by _bound_degree exceed the budget) is reported as KNOWN-FINDING; unknown (nan) "
        "chunk sizes are outside this check.",
        "DESIGN.md §4 C15, §9",
    ),
    "C16": (
        "TLC-enumerated (shape, per-axis spec, dtype size, limit, previous_chunks) inputs; outputs validated by TLC (Trace_Plan)",
        "Exhaustive within bounds: every shape of the preset x every per-axis spec (uniform int, -1, None, 'auto', explicit "
        "tuple, byte string) x (itemsize, limit) x previous_chunks (none or every grid); normalize_chunks is called in tuple, "
        "dict and scalar form (which must agree) and TLC checks Planner.NormChunksVerdict on every accepted specification.",
        "Known finding F03 (auto + previous_chunks exceeds the limit by the chunk-size tolerance) is reported as KNOWN-FINDING. "
        "Specifications that normalize_chunks rejects are fine.",
        "DESIGN.md §4 C16",
    ),
    "C17": (
        "TLC-enumerated operand tuples x policy x limit; unify_chunks_expr layouts validated by TLC (Trace_Plan); values through "
        "da.blockwise",
        "Exhaustive within bounds for layouts: every chunking of each operand of the preset families (same label, broadcast, "
        "size-1 axes, transposed labels, three operands) x policy auto/coarse/refine x unify-chunks-limit; TLC checks "
        "Planner.UnifyVerdict (one common layout per label, refine only splits, no block inflated beyond max(limit, own largest)). "
        "A strided sample of the same cases is computed through da.blockwise and compared with NumPy, block shapes compared with "
        "the advertised chunks.",
        "Trusted: adapters in harness/impl_helpers.py. The value part is a sample (every k-th enumerated case), the layout part "
        "is exhaustive.",
        "DESIGN.md §4 C17",
    ),
    "C21": (
        "TLC-enumerated ArrayProgram behaviours replayed; Frisky record lists exported into TaskGraph.tla's vocabulary, executed by an "
        "in-process executor and validated by TLC (TaskGraph.RecordsVerdict)",
        "Exhaustive within bounds over the corpora: for every collection, alone and as the last (up to 3) collections of a program "
        "walked with one shared `seen` set, `__frisky_graph__()` and `__frisky_records_chunks__()` either decline with "
        "NotImplementedError or give records whose graph is closed, acyclic and defines every `__frisky_output_keys__()` key, and "
        "whose execution yields, for every output key, the block value of `__dask_graph__()`.",
        "In this sandbox every node takes the generic GraphRecordsLayer translation (the native extension cannot be built, C22). "
        "False alarm corrected: a 'no key defined by two records' clause was removed (a pinned alias and the raw task of the same name "
        "legitimately coexist in a shared walk; equal names / equal arrays is C06's subject). vindex / diagonal are not generated yet.",
        "DESIGN.md §4 C21, §9",
    ),
    "C23": (
        "RandomRealization.tla model-checked (Reinstantiate must not draw again; the redraw mutant violates OneRealization); "
        "TLC-enumerated and TLC-simulated programs over seeded random bases replayed; observations validated by TLC "
        "(RandomRealization.RealizationVerdict)",
        "Exhaustive within bounds: random bases (RandomState and Generator; randint, poisson, normal, uniform, random; 1-D and 2-D; "
        "lean chunk grids; two seeds) alone, followed by every lean operation, and by two operations (strided); plus two fixed-seed "
        "TLC simulations of deep programs (6-7 actions, several sources / random bases sharing intermediates through elementwise "
        "operations and reductions).  The first computed value of the base is the realization; TLC requires the derived collection "
        "(optimized graph, raw graph, compute), the base computed again, a fresh collection over it, the base rebuilt from the same "
        "seed / shape / chunks, and cloudpickle round trips all to equal it (derived: NumPy applied to the realized base).",
        "Values are compared after fixed-point quantization (1e-6). Array-valued distribution parameters and choice() are not "
        "generated (known defects there are listed in DESIGN.md §6 / §9.4).",
        "DESIGN.md §4 C23, §9",
    ),
    "C24": (
        "SourceIO.tla (Read enabled iff the request is a basic index inside the source); TLC-enumerated slice / rechunk chains replayed "
        "over recording sources; every read request and the computed value validated by TLC (SourceIO.IOVerdict)",
        "Exhaustive within bounds over the lean domains: every behaviour over {Index, Rechunk} of depth 3 (1-D) / 2 (2-D, 3-D), "
        "observed after every action, over recording array-likes (plain; with a storage grid; with lock + fancy=False + custom "
        "getitem; wrapped by asarray) and over NumPy arrays with the 64 MiB eager-copy threshold scaled down to 16 bytes (reaching "
        "the deferred-region path).  TLC checks that every logged request is a basic index within the source's bounds and that the "
        "value assembled from the reads equals the denotation (NumPy indexing of the source).",
        "The threshold is a module constant re-assigned in the harness process (no source change). zarr / hdf5 are simulated.",
        "DESIGN.md §4 C24, §9",
    ),
    "C25": (
        "Gen_IO.tla enumerates store calls; da.store runs on recording targets; before / after contents validated by TLC "
        "(SourceIO.StoreVerdict)",
        "Exhaustive within bounds: source shape x chunk grid x {same-shape target, larger target with an offset region} x lock (True, "
        "False, lock object) x compute x return_stored, single pair and two pairs with different regions, plus every (shape, grid, "
        "axis) npy-stack round trip.  TLC checks: target after = initial target with the source written into the region and nothing "
        "else changed; with compute=False nothing is written before computing; arrays returned by return_stored=True read back the "
        "source; the npy stack reads back the array.",
        "Known finding F24 (one source stored into two equal-content ndarray targets writes only the first) is reported as KNOWN-FINDING "
        "from two witness calls.",
        "DESIGN.md §4 C25, §9",
    ),
    "C26": (
        "XarrayOptIn.tla model-checked (OptIn; the import-time registration mutant violates it); enumerated interpreter histories run "
        "in fresh interpreters and validated by TLC (XarrayOptIn.OptInVerdict)",
        "For every importable dask_array sub-module m (154; a rotating third in the quick tier): [import xarray ; import m] and "
        "[import m ; import xarray]; seeded longer histories of 2-4 sub-modules around xarray; histories of ordinary use without "
        "register() (array compute / persist; xarray Datasets holding dask_array arrays through dask.compute / persist / "
        "optimize) after importing the integration modules; and four histories with register() (incl. twice) followed by an xarray "
        "computation on dask_array-backed data compared with NumPy-backed data.  After every step the interpreter records the type "
        "of xarray's 'dask' chunk manager and dask_array.xarray.isactive(); TLC rejects 'ours' / active before register() and "
        "anything else after it.",
        "One interpreter per history (0.3-0.9 s each).",
        "DESIGN.md §4 C26, §9",
    ),
    "C27": (
        "TLC-enumerated layout pairs validated by TLC (Trace_Plan) + node estimates over TLC-enumerated ArrayProgram behaviours",
        "Exhaustive within bounds: (a) every pair of chunkings of every axis length <= 7 (quick) / 9 (thorough): moved_fraction "
        "in [0,1], 0 for identical layouts and pure splits (Planner.MovedVerdict); (b) for every depth-1 behaviour of "
        "ArrayProgram.tla x source grids, the estimate of every node of the raw and optimized expression is a pair with "
        "0 <= min <= max, never NaN (all chunks known), (0,0) for a rechunk to the same chunks and for the alias x.blocks[0].",
        "Known finding F06 (Blocks reports a non-zero estimate) is reported as KNOWN-FINDING; F16 (Blockwise estimate raised "
        "TypeError for list indices) was repaired by a fix: commit. Arrays with unknown chunk sizes are outside this check.",
        "DESIGN.md §4 C27, §9",
    ),
    "C28": (
        "TLC-enumerated ArrayProgram behaviours with data-dependent selections replayed; blocks and values recorded and validated "
        "by TLC (Collection.BlocksVerdict, Collection.UnknownVerdict)",
        "Exhaustive within bounds: producers MaskSelect (thresholds selecting none / some / all elements) and flatnonzero, argwhere, "
        "unique over every small source and chunk grid; ComputeChunkSizes in place (afterwards every size must be known and equal to "
        "the true size of the block the graph produces); follow-on operations (every lean operation after the producer; chains "
        "producer ; compute_chunk_sizes | op ; op).  For every collection from the producer on, the pinned graph is executed: each "
        "advertised known size must be the block's true size, and the value must be the denotation - unless the operation raised.",
        "An operation that raises on unknown or resolved sizes is accepted. compress / nonzero tuples are not modelled.",
        "DESIGN.md §4 C28, §9",
    ),
    "C29": (
        "SourceIO.tla phase machine model-checked (data only flows while executing); TLC-enumerated programs over recording non-NumPy "
        "sources and logged user block functions walked through construct / inspect / optimize / build / execute; the interleaved log "
        "validated by TLC (SourceIO.IOVerdict)",
        "Exhaustive within bounds over the corpora (strided in the quick tier): for every collection over a recording source (plain, "
        "storage grid, asarray, asanyarray) and every program with a MapBlocks action (with dtype and with meta inference), the driver "
        "records the reads and user-function calls caused by construction, by 15 metadata accessors (shape, chunks, dtype, name, keys, "
        "repr, len, numblocks, transfer estimate, html repr, nbytes, size ...), by optimize() / simplify(), by graph building and by "
        "execution.  TLC rejects any non-empty read or user call on a non-empty block outside the executing phase.",
        "Known finding F22 (dtype inference calls the user function on fake one-element blocks at construction, as documented for "
        "dask.array) is reported as KNOWN-FINDING.",
        "DESIGN.md §4 C29, §9",
    ),
}

NOT_APPLICABLE = {
    "C22": "native Rust layers (dask_array._rust, pyo3) cannot be built offline in this sandbox (pyo3 0.29 not in the cargo "
    "registry cache); a TLA+ transcription of Rust code that nothing binds to the implementation would decide nothing "
    "(DESIGN.md §5)",
}

ALL = [f"C{i:02d}" for i in range(1, 30)]


def build():
    checks = []
    for pid in ALL:
        if pid not in CLAIMED:
            continue
        tech, text, note, ref = CLAIMED[pid]
        checks.append(
            {
                "property_id": pid,
                "quick_cmd": f"./check {pid} --tier quick",
                "thorough_cmd": f"./check {pid} --tier thorough",
                "evidence_file": f"/verif/evidence/{pid}.json",
                "replay_cmd_template": f"./check {pid} --replay {{path}}",
                "engine": "tlc-conformance",
                "level_claimed": {"category": "model_checking", "text": text, "design_ref": ref},
                "level_note": note,
                "technique": tech,
            }
        )
    na = []
    for pid in ALL:
        if pid in CLAIMED:
            continue
        reason = NOT_APPLICABLE.get(pid, "no registered check")
        na.append({"property_id": pid, "reason": reason})
    return {
        "version": 1,
        "setup_cmd": "cd /verif && ./setup.sh",
        "hooks": {
            "guard": "DASK_ARRAY_VERIF",
            "enable": "no source hooks: observation uses public surfaces and wrappers installed at run time by the harness "
            "(DESIGN.md §3.3); checks import /repo's working tree through the editable install of /venv",
            "baseline_off_cmd": BASELINE_OFF,
            "source_commits": [],
            "add_only": True,
        },
        "engines": [
            {
                "name": "tlc-conformance",
                "path": "/verif/check",
                "serves_properties": sorted(CLAIMED),
                "kind_free_text": "explicit TLA+ specification suite (/verif/spec) checked with TLC; bound to the code by replaying "
                "TLC-generated behaviours into dask_array and by validating traces recorded from dask_array against the "
                "specification (Trace_*.tla)",
            }
        ],
        "checks": checks,
        "not_applicable": na,
        "notes": "See DESIGN.md. Fixed defects and open findings: known_findings.jsonl.",
    }


if __name__ == "__main__":
    m = build()
    with open(os.path.join(VERIF, "MANIFEST.json"), "w") as f:
        json.dump(m, f, indent=1)
    print("MANIFEST.json written:", len(m["checks"]), "checks,", len(m["not_applicable"]), "not applicable")
