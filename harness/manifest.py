"""Generates /verif/MANIFEST.json from the table below (python -m harness.manifest)."""
from __future__ import annotations

import json
import os

VERIF = os.path.dirname(os.path.dirname(os.path.abspath(__file__)))

BASELINE_OFF = (
    "cd /repo && env -u DASK_ARRAY_VERIF /venv/bin/python -m pytest -ra -q -p no:cacheprovider --timeout=900 "
    "--continue-on-collection-errors"
)

# property -> (technique, level text, level note, design ref)
CLAIMED = {
    "C13": (
        "TLC-enumerated helper inputs; recorded outputs validated by TLC against Planner.tla (Trace_Plan)",
        "Exhaustive within bounds: TLC enumerates every (slice|int, axis length, chunking, pair of indices) of the "
        "bounded domain, the real helpers (normalize_slice, posify_index, normalize_index+_slice_1d+new_blockdim+"
        "_compute_sliced_chunks, fuse_slice, _compose_slices) are called on each, and TLC evaluates the relation of "
        "Planner.tla (selection preserved, pieces inside blocks and concatenating to the selection in order, chunk sizes "
        "= piece lengths) on every recorded output. Boundary arithmetic bugs have small witnesses, so small-scope "
        "exhaustiveness is the right level.",
        "Trusted: TLC, the transcription of CPython slice semantics in ChunkAlgebra.tla (cross-checked against CPython by "
        "setup self-test), the JSON adapters in harness/impl_helpers.py. Bounds: n<=4..7, |step|<=3.",
        "DESIGN.md §4 C13",
    ),
}

NOT_APPLICABLE = {
    "C22": "native Rust layers (dask_array._rust, pyo3) cannot be built offline in this sandbox (pyo3 0.29 not in the cargo "
    "registry cache); a TLA+ transcription of Rust code that nothing binds to the implementation would decide nothing "
    "(DESIGN.md §5)",
}

ALL = [f"C{i:02d}" for i in range(1, 30)]


def build():
    checks = []
    for pid in ALL:
        if pid not in CLAIMED:
            continue
        tech, text, note, ref = CLAIMED[pid]
        checks.append(
            {
                "property_id": pid,
                "quick_cmd": f"./check {pid} --tier quick",
                "thorough_cmd": f"./check {pid} --tier thorough",
                "evidence_file": f"/verif/evidence/{pid}.json",
                "replay_cmd_template": f"./check {pid} --replay {{path}}",
                "engine": "tlc-conformance",
                "level_claimed": {"category": "model_checking", "text": text, "design_ref": ref},
                "level_note": note,
                "technique": tech,
            }
        )
    na = []
    for pid in ALL:
        if pid in CLAIMED:
            continue
        reason = NOT_APPLICABLE.get(pid, "check not built yet in this session (planned in DESIGN.md §4); not claimed")
        na.append({"property_id": pid, "reason": reason})
    return {
        "version": 1,
        "setup_cmd": "cd /verif && ./setup.sh",
        "hooks": {
            "guard": "DASK_ARRAY_VERIF",
            "enable": "no source hooks: observation uses public surfaces and wrappers installed at run time by the harness "
            "(DESIGN.md §3.3); checks import /repo's working tree through the editable install of /venv",
            "baseline_off_cmd": BASELINE_OFF,
            "source_commits": [],
            "add_only": True,
        },
        "engines": [
            {
                "name": "tlc-conformance",
                "path": "/verif/check",
                "serves_properties": sorted(CLAIMED),
                "kind_free_text": "explicit TLA+ specification suite (/verif/spec) checked with TLC; bound to the code by replaying "
                "TLC-generated behaviours into dask_array and by validating traces recorded from dask_array against the "
                "specification (Trace_*.tla)",
            }
        ],
        "checks": checks,
        "not_applicable": na,
        "notes": "See DESIGN.md. Fixed defects and open findings: known_findings.jsonl.",
    }


if __name__ == "__main__":
    m = build()
    with open(os.path.join(VERIF, "MANIFEST.json"), "w") as f:
        json.dump(m, f, indent=1)
    print("MANIFEST.json written:", len(m["checks"]), "checks,", len(m["not_applicable"]), "not applicable")
